package fakeredis

import (
	"net"
	"reflect"
	"strings"
	"testing"

	"verifsim/resp"
)

const (
	ctS1, ctS2, ctS3 = "10.1.0.1:26379", "10.1.0.2:26379", "10.1.0.3:26379"
	ctDM             = "10.2.0.1:6379"
	ctDR1, ctDR2     = "10.2.0.2:6379", "10.2.0.3:6379"
)

// one master, two replicas, three sentinels agreeing on "mymaster"
func ctNewTestSentinels() (*World, *SentinelModel) {
	w, _ := ctNewTestWorld()
	w.AddNode(ctDM)
	w.AddReplica(ctDR1, ctDM)
	w.AddReplica(ctDR2, ctDM)
	s := NewSentinelModel(w)
	for _, a := range []string{ctS1, ctS2, ctS3} {
		s.AddSentinel(a)
	}
	s.MonitorAll("mymaster", ctDM, ctDR1, ctDR2)
	return w, s
}

// ctStrMapOf reads a flat array or a RESP3 map of strings like the client's AsStrMap.
func ctStrMapOf(t *testing.T, v resp.Value) map[string]string {
	t.Helper()
	m := map[string]string{}
	for k, e := range ctAsMap(t, v) {
		if e.T != '$' {
			t.Fatalf("field %s is not a bulk string: %v", k, e)
		}
		m[k] = e.S
	}
	return m
}

func ctFieldNames(v resp.Value) []string {
	var out []string
	for i := 0; i < len(v.A); i += 2 {
		out = append(out, v.A[i].S)
	}
	return out
}

func TestSentinelServesOnlySentinelCommands(t *testing.T) {
	w, s := ctNewTestSentinels()
	if !s.IsSentinel(ctS1) || s.IsSentinel(ctDM) || (*SentinelModel)(nil).IsSentinel(ctS1) {
		t.Fatal("IsSentinel")
	}
	c := ctDial(t, w, ctS1)
	hello := ctAsMap(t, c.do("HELLO", "3", "SETNAME", "cli"))
	if hello["mode"].S != "sentinel" || hello["proto"].I != 3 {
		t.Fatalf("HELLO: %v", hello)
	}
	if c.sc.Sess.Name != "cli" {
		t.Fatal("SETNAME")
	}
	ctWantStr(t, c.do("PING"), "PONG")
	ctWantStr(t, c.do("CLIENT", "SETNAME", "x"), "OK")
	ctWantStr(t, c.do("CLIENT", "SETINFO", "LIB-NAME", "rueidis"), "OK")
	ctWantStr(t, c.do("CLIENT", "TRACKING", "ON", "OPTIN"), "OK")
	ctWantErr(t, c.do("GET", "k"), "ERR unknown command 'GET', with args beginning with: 'k' ")
	ctWantErr(t, c.do("SET", "k", "v"), "ERR unknown command 'SET', with args beginning with: 'k' 'v' ")
	ctWantErr(t, c.do("SELECT", "0"), "ERR unknown command 'SELECT', with args beginning with: '0' ")
	ctWantErr(t, c.do("READONLY"), "ERR unknown command 'READONLY', with args beginning with: ")
	ctWantErr(t, c.do("PUBLISH", "ch", "m"), "ERR Only HELLO messages are accepted by Sentinel instances.")
	role := c.do("ROLE")
	if role.A[0].S != "sentinel" || len(role.A[1].A) != 1 || role.A[1].A[0].S != "mymaster" {
		t.Fatalf("ROLE: %v", role)
	}
	if info := c.do("INFO").S; !strings.Contains(info, "master0:name=mymaster,status=ok,address=10.2.0.1:6379,slaves=2,sentinels=3") {
		t.Fatalf("INFO: %q", info)
	}
	ctWantStr(t, c.do("SENTINEL", "MYID"), w.Nodes[ctS1].RunID)
	ctNoGaps(t, w)
	// a data node does not know SENTINEL
	if v := ctDial(t, w, ctDM).do("SENTINEL", "MASTERS"); !v.IsErr() || !strings.HasPrefix(v.S, "ERR unknown command 'SENTINEL'") {
		t.Fatalf("SENTINEL on a data node: %v", v)
	}
	// unmodelled sub command is a gap
	if v := c.do("SENTINEL", "FAILOVER", "mymaster"); !v.IsErr() || len(w.Gaps) != 1 {
		t.Fatalf("gap expected: %v %q", v, w.Gaps)
	}
}

func TestSentinelAuthIsSeparate(t *testing.T) {
	w, s := ctNewTestSentinels()
	s.SetAuth(ctS1, "sentuser", "sentpass")
	w.Nodes[ctDM].Users["default"] = "datapass"
	c := ctDial(t, w, ctS1)
	ctWantErr(t, c.do("SENTINEL", "MASTERS"), "NOAUTH Authentication required.")
	ctWantErr(t, c.do("HELLO", "3", "AUTH", "default", "datapass"), "WRONGPASS invalid username-password pair or user is disabled.")
	if v := c.do("HELLO", "3", "AUTH", "sentuser", "sentpass"); v.T != '%' {
		t.Fatalf("HELLO AUTH: %v", v)
	}
	if v := c.do("SENTINEL", "MASTERS"); v.IsErr() {
		t.Fatalf("after auth: %v", v)
	}
	d := ctDial(t, w, ctDM)
	ctWantErr(t, d.do("AUTH", "sentuser", "sentpass"), "WRONGPASS invalid username-password pair or user is disabled.")
	ctWantStr(t, d.do("AUTH", "datapass"), "OK")
	// other sentinels need no auth
	if v := ctDial(t, w, ctS2).do("SENTINEL", "MASTERS"); v.IsErr() {
		t.Fatalf("%v", v)
	}
}

func TestSentinelQueries(t *testing.T) {
	w, s := ctNewTestSentinels()
	for _, proto := range []int{2, 3} {
		c := ctDial(t, w, ctS1)
		if proto == 3 {
			c = ctDial3(t, w, ctS1)
		}
		v := c.do("SENTINEL", "GET-MASTER-ADDR-BY-NAME", "mymaster")
		if v.T != '*' || len(v.A) != 2 || v.A[0].S != "10.2.0.1" || v.A[1].T != '$' || v.A[1].S != "6379" {
			t.Fatalf("get-master-addr-by-name: %v", v)
		}
		v = c.do("SENTINEL", "GET-MASTER-ADDR-BY-NAME", "other")
		if proto == 2 && !(v.T == '*' && v.Null) || proto == 3 && v.T != '_' {
			t.Fatalf("proto %d unknown master must be a null (array): %v", proto, v)
		}
		for _, sub := range []string{"SENTINELS", "REPLICAS", "SLAVES", "MASTER"} {
			ctWantErr(t, c.do("SENTINEL", sub, "other"), "ERR No such master with that name")
		}
		ctWantErr(t, c.do("SENTINEL", "SENTINELS"), "ERR wrong number of arguments for 'sentinel|sentinels' command")

		agg := byte('*')
		if proto == 3 {
			agg = '%'
		}
		sent := c.do("SENTINEL", "SENTINELS", "mymaster")
		if sent.T != '*' || len(sent.A) != 2 || sent.A[0].T != agg {
			t.Fatalf("proto %d SENTINELS shape: %v", proto, sent)
		}
		if got := ctFieldNames(sent.A[0]); !reflect.DeepEqual(got, []string{"name", "ip", "port", "runid", "flags", "link-pending-commands", "link-refcount", "last-ping-sent", "last-ok-ping-reply", "last-ping-reply", "last-hello-message", "voted-leader", "voted-leader-epoch"}) {
			t.Fatalf("sentinel fields: %v", got)
		}
		m := ctStrMapOf(t, sent.A[0])
		if m["ip"] != "10.1.0.2" || m["port"] != "26379" || m["flags"] != "sentinel" || m["name"] != w.Nodes[ctS2].RunID || m["runid"] != w.Nodes[ctS2].RunID {
			t.Fatalf("sentinel entry: %v", m)
		}

		reps := c.do("SENTINEL", "REPLICAS", "mymaster")
		if !reflect.DeepEqual(reps, c.do("SENTINEL", "SLAVES", "mymaster")) {
			t.Fatal("SLAVES must be an alias of REPLICAS")
		}
		if reps.T != '*' || len(reps.A) != 2 || reps.A[0].T != agg {
			t.Fatalf("REPLICAS shape: %v", reps)
		}
		if got := ctFieldNames(reps.A[0]); !reflect.DeepEqual(got, []string{"name", "ip", "port", "runid", "flags", "link-pending-commands", "link-refcount", "last-ping-sent", "last-ok-ping-reply", "last-ping-reply", "info-refresh", "role-reported", "role-reported-time", "master-link-down-time", "master-link-status", "master-host", "master-port", "slave-priority", "slave-repl-offset", "replica-announced"}) {
			t.Fatalf("replica fields: %v", got)
		}
		r := ctStrMapOf(t, reps.A[0])
		if r["name"] != "10.2.0.2:6379" || r["ip"] != "10.2.0.2" || r["port"] != "6379" || r["flags"] != "slave" || r["master-link-status"] != "ok" || r["master-host"] != "10.2.0.1" || r["master-port"] != "6379" || r["slave-priority"] != "100" || r["role-reported"] != "slave" {
			t.Fatalf("replica entry: %v", r)
		}

		mas := c.do("SENTINEL", "MASTER", "mymaster")
		if mas.T != agg {
			t.Fatalf("MASTER shape: %v", mas)
		}
		mm := ctStrMapOf(t, mas)
		if mm["name"] != "mymaster" || mm["flags"] != "master" || mm["num-slaves"] != "2" || mm["num-other-sentinels"] != "2" || mm["quorum"] != "2" || mm["ip"] != "10.2.0.1" {
			t.Fatalf("master entry: %v", mm)
		}
		all := c.do("SENTINEL", "MASTERS")
		if len(all.A) != 1 || !reflect.DeepEqual(all.A[0], mas) {
			t.Fatalf("MASTERS: %v", all)
		}
	}
	// down replicas: flags and s-down-time
	view := s.Get(ctS1).Master("mymaster")
	view.Replica(ctDR1).SDown = true
	view.Replica(ctDR1).Disconnected = true
	view.Replica(ctDR1).MasterLinkStatus = "err"
	c := ctDial(t, w, ctS1)
	reps := c.do("SENTINEL", "REPLICAS", "mymaster")
	r := ctStrMapOf(t, reps.A[0])
	if r["flags"] != "s_down,slave,disconnected" || r["s-down-time"] == "" || r["master-link-status"] != "err" || r["master-link-down-time"] == "0" {
		t.Fatalf("down replica: %v", r)
	}
	if _, has := r["o-down-time"]; has {
		t.Fatal("o-down-time only when objectively down")
	}
	if _, has := ctStrMapOf(t, reps.A[1])["s-down-time"]; has {
		t.Fatal("healthy replica must not have s-down-time")
	}
	view.ODown, view.SDown = true, true
	mm := ctStrMapOf(t, c.do("SENTINEL", "MASTER", "mymaster"))
	if mm["flags"] != "s_down,o_down,master" || mm["s-down-time"] == "" || mm["o-down-time"] == "" {
		t.Fatalf("down master: %v", mm)
	}
	ctNoGaps(t, w)
}

// the client's listWatch + pickReplica walk over our answers
func TestSentinelAnswersConsumableByClientWalk(t *testing.T) {
	w, s := ctNewTestSentinels()
	s.Get(ctS1).Master("mymaster").Replica(ctDR1).SDown = true
	for _, proto := range []int{2, 3} {
		c := ctDial(t, w, ctS1)
		if proto == 3 {
			c = ctDial3(t, w, ctS1)
		}
		var sentinels []string
		for _, other := range c.do("SENTINEL", "SENTINELS", "mymaster").A {
			m := ctStrMapOf(t, other)
			sentinels = append(sentinels, net.JoinHostPort(m["ip"], m["port"]))
		}
		if !reflect.DeepEqual(sentinels, []string{ctS2, ctS3}) {
			t.Fatalf("sentinels: %v", sentinels)
		}
		ms := c.do("SENTINEL", "GET-MASTER-ADDR-BY-NAME", "mymaster")
		if got := net.JoinHostPort(ms.A[0].S, ms.A[1].S); got != ctDM {
			t.Fatalf("master: %s", got)
		}
		var eligible []string
		for _, rep := range c.do("SENTINEL", "REPLICAS", "mymaster").A {
			m := ctStrMapOf(t, rep)
			if _, down := m["s-down-time"]; !down {
				eligible = append(eligible, net.JoinHostPort(m["ip"], m["port"]))
			}
		}
		if !reflect.DeepEqual(eligible, []string{ctDR2}) {
			t.Fatalf("eligible replicas: %v", eligible)
		}
	}
}

func TestSentinelsDisagree(t *testing.T) {
	w, s := ctNewTestSentinels()
	// ctS2 already believes in a failover nobody else has seen, and knows fewer sentinels
	v2 := s.Get(ctS2).Monitor("mymaster", ctDR1, []string{ctDM, ctDR2}, []string{ctS1})
	v2.Replica(ctDM).SDown = true
	s.Get(ctS3).Unmonitor("mymaster")
	q := func(addr string) resp.Value {
		return ctDial(t, w, addr).do("SENTINEL", "GET-MASTER-ADDR-BY-NAME", "mymaster")
	}
	if v := q(ctS1); v.A[0].S != "10.2.0.1" {
		t.Fatalf("s1: %v", v)
	}
	if v := q(ctS2); v.A[0].S != "10.2.0.2" {
		t.Fatalf("s2: %v", v)
	}
	if v := q(ctS3); !v.Null {
		t.Fatalf("s3 does not monitor the master: %v", v)
	}
	if v := ctDial(t, w, ctS2).do("SENTINEL", "SENTINELS", "mymaster"); len(v.A) != 1 {
		t.Fatalf("s2 sentinels: %v", v)
	}
	reps := ctDial(t, w, ctS2).do("SENTINEL", "REPLICAS", "mymaster")
	if r := ctStrMapOf(t, reps.A[0]); r["ip"] != "10.2.0.1" || r["flags"] != "s_down,slave" || r["master-host"] != "10.2.0.2" {
		t.Fatalf("s2 replicas: %v", r)
	}
	// the data nodes have not changed roles at all
	if v := ctDial(t, w, ctDR1).do("ROLE"); v.A[0].S != "slave" {
		t.Fatalf("ROLE: %v", v)
	}
}

func TestSwitchMasterPush(t *testing.T) {
	w, s := ctNewTestSentinels()
	c2 := ctDial(t, w, ctS1)
	c2.do("HELLO", "2")
	c3 := ctDial3(t, w, ctS1)
	other := ctDial3(t, w, ctS2)
	pat := ctDial3(t, w, ctS1)
	chans := []string{"SUBSCRIBE", "+sentinel", "+slave", "-sdown", "+sdown", "+switch-master", "+reboot"}
	// the client unsubscribes first
	c3.do("UNSUBSCRIBE", "+sentinel", "+slave", "-sdown", "+sdown", "+switch-master", "+reboot")
	if p := c3.takePushes(); len(p) != 6 || p[0].T != '>' || p[0].A[0].S != "unsubscribe" || p[5].A[2].I != 0 {
		t.Fatalf("unsubscribe pushes: %v", p)
	}
	for _, c := range []*ctTconn{c2, c3, other} {
		c.do(chans...)
		if p := c.takePushes(); len(p) != 6 || p[5].A[0].S != "subscribe" || p[5].A[2].I != 6 {
			t.Fatalf("subscribe confirmations: %v", p)
		}
	}
	pat.do("PSUBSCRIBE", "*")
	pat.takePushes()

	if n := s.SwitchMaster(ctS1, "mymaster", ctDM, ctDR1); n != 3 {
		t.Fatalf("deliveries: %d", n)
	}
	want := []resp.Value{resp.Bulk("message"), resp.Bulk("+switch-master"), resp.Bulk("mymaster 10.2.0.1 6379 10.2.0.2 6379")}
	p2 := c2.takePushes()
	if len(p2) != 1 || p2[0].T != '*' || !reflect.DeepEqual(p2[0].A, want) {
		t.Fatalf("RESP2 message must be a plain array: %v", p2)
	}
	p3 := c3.takePushes()
	if len(p3) != 1 || p3[0].T != '>' || !reflect.DeepEqual(p3[0].A, want) {
		t.Fatalf("RESP3 message must be a push: %v", p3)
	}
	pp := pat.takePushes()
	if len(pp) != 1 || pp[0].A[0].S != "pmessage" || pp[0].A[1].S != "*" || pp[0].A[2].S != "+switch-master" {
		t.Fatalf("pattern subscriber: %v", pp)
	}
	if len(other.takePushes()) != 0 {
		t.Fatal("subscribers of another sentinel must not see the event")
	}
	// RESP2 subscribed connection only accepts (un)subscribe and ping
	if v := c2.do("SENTINEL", "MASTERS"); !v.IsErr() || !strings.Contains(v.S, "only (P|S)SUBSCRIBE") {
		t.Fatalf("RESP2 subscribed mode: %v", v)
	}
	// the view of ctS1 changed, the one of ctS2 did not
	q := ctDial(t, w, ctS1)
	ctWantStr(t, q.do("SENTINEL", "GET-MASTER-ADDR-BY-NAME", "mymaster").A[0], "10.2.0.2")
	reps := q.do("SENTINEL", "REPLICAS", "mymaster")
	if len(reps.A) != 2 || ctStrMapOf(t, reps.A[0])["ip"] != "10.2.0.3" || ctStrMapOf(t, reps.A[1])["ip"] != "10.2.0.1" || ctStrMapOf(t, reps.A[1])["master-host"] != "10.2.0.2" {
		t.Fatalf("replicas after switch: %v", reps)
	}
	ctWantStr(t, ctDial(t, w, ctS2).do("SENTINEL", "GET-MASTER-ADDR-BY-NAME", "mymaster").A[0], "10.2.0.1")
	// the sentinel says ctDR1 is the master, but ctDR1 still answers ROLE slave until promoted
	d := ctDial(t, w, ctDR1)
	if v := d.do("ROLE"); v.A[0].S != "slave" {
		t.Fatalf("ROLE before promote: %v", v)
	}
	w.Promote(ctDR1)
	if v := d.do("ROLE"); v.A[0].S != "master" {
		t.Fatalf("ROLE after promote: %v", v)
	}
	ctNoGaps(t, w)
}

func TestSentinelEventFormats(t *testing.T) {
	w, s := ctNewTestSentinels()
	c := ctDial3(t, w, ctS1)
	c.do("PSUBSCRIBE", "*")
	c.takePushes()
	last := func() (string, string) {
		t.Helper()
		p := c.takePushes()
		if len(p) != 1 || p[0].A[0].S != "pmessage" {
			t.Fatalf("one pmessage expected: %v", p)
		}
		return p[0].A[2].S, p[0].A[3].S
	}
	check := func(ch, msg string) {
		t.Helper()
		gc, gm := last()
		if gc != ch || gm != msg {
			t.Fatalf("event: %q %q, want %q %q", gc, gm, ch, msg)
		}
	}
	s.SDown(ctS1, "slave", "mymaster", ctDR1, true)
	check("+sdown", "slave 10.2.0.2:6379 10.2.0.2 6379 @ mymaster 10.2.0.1 6379")
	if !s.Get(ctS1).Master("mymaster").Replica(ctDR1).SDown {
		t.Fatal("view not updated")
	}
	s.SDown(ctS1, "slave", "mymaster", ctDR1, false)
	check("-sdown", "slave 10.2.0.2:6379 10.2.0.2 6379 @ mymaster 10.2.0.1 6379")
	s.SDown(ctS1, "master", "mymaster", ctDM, true)
	check("+sdown", "master mymaster 10.2.0.1 6379")
	s.ODown(ctS1, "mymaster", true)
	check("+odown", "master mymaster 10.2.0.1 6379 #quorum 2/2")
	s.ODown(ctS1, "mymaster", false)
	check("-odown", "master mymaster 10.2.0.1 6379")
	s.SDown(ctS1, "sentinel", "mymaster", ctS2, true)
	check("+sdown", "sentinel "+w.Nodes[ctS2].RunID+" 10.1.0.2 26379 @ mymaster 10.2.0.1 6379")
	s.NewReplica(ctS1, "mymaster", "10.2.0.9:6379")
	check("+slave", "slave 10.2.0.9:6379 10.2.0.9 6379 @ mymaster 10.2.0.1 6379")
	if s.Get(ctS1).Master("mymaster").Replica("10.2.0.9:6379") == nil {
		t.Fatal("replica not added to the view")
	}
	s4 := "[2001:db8::5]:26379"
	s.AddSentinel(s4)
	s.NewSentinel(ctS1, "mymaster", s4)
	check("+sentinel", "sentinel "+w.Nodes[s4].RunID+" 2001:db8::5 26379 @ mymaster 10.2.0.1 6379")
	if v := ctDial(t, w, ctS1).do("SENTINEL", "SENTINELS", "mymaster"); len(v.A) != 3 || ctStrMapOf(t, v.A[2])["ip"] != "2001:db8::5" {
		t.Fatalf("new sentinel listed: %v", v)
	}
	s.Reboot(ctS1, "master", "mymaster", ctDM)
	check("+reboot", "master mymaster 10.2.0.1 6379")
	s.Reboot(ctS1, "slave", "mymaster", ctDR2)
	check("+reboot", "slave 10.2.0.3:6379 10.2.0.3 6379 @ mymaster 10.2.0.1 6379")
	s.FailoverEnd(ctS1, "mymaster", ctDM)
	check("+failover-end", "master mymaster 10.2.0.1 6379")
	s.Publish(ctS1, "+tilt", "#tilt mode entered")
	check("+tilt", "#tilt mode entered")
	ctNoGaps(t, w)
}

func TestRoleShapesAndPromoteDemote(t *testing.T) {
	w, _ := ctNewTestSentinels()
	m, r := ctDial(t, w, ctDM), ctDial(t, w, ctDR1)
	ctWantStr(t, m.do("SET", "k", "v"), "OK")
	v := m.do("ROLE")
	if v.T != '*' || len(v.A) != 3 || v.A[0].S != "master" || v.A[1].T != ':' || v.A[1].I <= 0 || len(v.A[2].A) != 2 {
		t.Fatalf("master ROLE: %v", v)
	}
	if e := v.A[2].A[0]; len(e.A) != 3 || e.A[0].S != "10.2.0.2" || e.A[1].T != '$' || e.A[1].S != "6379" || e.A[2].T != '$' {
		t.Fatalf("replica entry of master ROLE: %v", e)
	}
	v = r.do("ROLE")
	if len(v.A) != 5 || v.A[0].S != "slave" || v.A[1].S != "10.2.0.1" || v.A[2].T != ':' || v.A[2].I != 6379 || v.A[3].S != "connected" || v.A[4].T != ':' || v.A[4].I <= 0 {
		t.Fatalf("replica ROLE: %v", v)
	}
	for _, st := range []string{"connect", "connecting", "sync"} {
		w.Nodes[ctDR1].ReplState = st
		if v = r.do("ROLE"); v.A[3].S != st || v.A[4].I != -1 {
			t.Fatalf("state %s: %v", st, v)
		}
		if len(m.do("ROLE").A[2].A) != 1 {
			t.Fatal("a replica that is not connected is not listed by the master")
		}
	}
	w.Nodes[ctDR1].ReplState = ""
	w.Nodes[ctDR1].ReplOffset = 4242
	if v = r.do("ROLE"); v.A[4].I != 4242 {
		t.Fatalf("offset: %v", v)
	}
	info := r.do("INFO", "replication").S
	for _, want := range []string{"role:slave", "master_host:10.2.0.1", "master_port:6379", "master_link_status:up"} {
		if !strings.Contains(info, want) {
			t.Fatalf("INFO lacks %s: %q", want, info)
		}
	}
	if !strings.Contains(m.do("INFO").S, "connected_slaves:2") {
		t.Fatal("INFO on master")
	}

	// failover by hand: promote ctDR1, demote the old master and repoint the other replica
	rc := ctDial(t, w, ctDM)
	ctWantStr(t, rc.do("CLIENT", "CAPA", "redirect"), "OK")
	w.Promote(ctDR1)
	if v = r.do("ROLE"); v.A[0].S != "master" || len(v.A[2].A) != 0 {
		t.Fatalf("promoted: %v", v)
	}
	if v = m.do("ROLE"); v.A[0].S != "master" {
		t.Fatal("old master is untouched until demoted: two masters is a legal intermediate state")
	}
	w.Demote(ctDM, ctDR1)
	w.Demote(ctDR2, ctDR1)
	if v = m.do("ROLE"); v.A[0].S != "slave" || v.A[1].S != "10.2.0.2" {
		t.Fatalf("demoted: %v", v)
	}
	if v = r.do("ROLE"); len(v.A[2].A) != 2 {
		t.Fatalf("new master's replicas: %v", v)
	}
	ctWantErr(t, m.do("SET", "k", "w"), "READONLY You can't write against a read only replica.")
	ctWantErr(t, rc.do("SET", "k", "w"), "REDIRECT 10.2.0.2:6379")
	ctWantStr(t, m.do("GET", "k"), "v") // data is shared
	ctWantStr(t, r.do("SET", "k", "w"), "OK")
	ctWantStr(t, rc.do("GET", "k"), "w")
	if ctAsMap(t, m.do("HELLO", "3"))["role"].S != "replica" {
		t.Fatal("HELLO role")
	}
	ctNoGaps(t, w)
}

func TestDemoteUnblocksAndResyncs(t *testing.T) {
	w, _ := ctNewTestWorld()
	a, b := "10.3.0.1:6379", "10.3.0.2:6379"
	w.AddNode(a)
	w.AddNode(b) // independent master with its own dataset
	ca := ctDial3(t, w, a)
	ctWantStr(t, ca.do("CLIENT", "TRACKING", "ON"), "OK")
	ctWantStr(t, ca.do("SET", "k", "a"), "OK")
	ctWantStr(t, ca.do("GET", "k"), "a")
	ca.takePushes()
	ctWantStr(t, ctDial(t, w, b).do("SET", "k", "b"), "OK")
	blocked := ctDial(t, w, a)
	w.Feed(blocked.sc, ctEncodeCmd([]string{"BLPOP", "l", "0"}))
	w.Demote(a, b)
	r := blocked.drain()
	if len(r) != 1 || !strings.HasPrefix(r[0].S, "UNBLOCKED ") {
		t.Fatalf("blocked client: %v", r)
	}
	p := ca.takePushes()
	if len(p) != 1 || p[0].A[0].S != "invalidate" || p[0].A[1].T != '_' {
		t.Fatalf("resync must flush the client side caches: %v", p)
	}
	ctWantStr(t, ca.do("GET", "k"), "b")
	if w.Nodes[a].DBs != w.Nodes[b].DBs {
		t.Fatal("datasets must be shared after Demote")
	}
	// Promote/Demote on cluster nodes are harness gaps
	w2, _, _ := ctNewTestCluster()
	w2.Promote(ctR1)
	if len(w2.Gaps) != 1 {
		t.Fatal("gap expected")
	}
}
