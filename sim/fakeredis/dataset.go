package fakeredis

import (
	"sort"
	"strings"
	"time"

	"verifsim/resp"
)

type entry struct {
	typ      string // "string" "hash" "list" "set" "zset" "json"
	str      string
	hash     map[string]string
	hkeys    []string // insertion order
	list     []string
	set      map[string]bool
	zset     map[string]float64
	json     any
	expireAt time.Time
	bm       *sparseBits // typ "string" only: when set, the value is held as sparse bit pages and str is "" (cmd_prob.go)
}

// Dataset is the keyspace of one shard (shared by a master and its replicas).
type Dataset struct {
	dbs        map[int]map[string]*entry
	ver        map[string]uint64 // modification counter per key (WATCH)
	Epoch      map[string]int    // invalidation epoch per key: bumped on every modification
	tracked    map[string][]*SrvConn
	bcast      map[*SrvConn]map[string][]string // pending broadcast invalidations: conn -> prefix -> keys
	bcastOrder []*SrvConn
	flushes    int
	// History of modifications, for oracles.
	Mods []Mod
}

// Mod records one modification of a key.
type Mod struct {
	Key   string
	Epoch int // epoch after the modification
	Step  int
	Seq   int
	Conn  int // writer connection id, -1 for ghost/expiry
	Flush bool
	// State of the key right after the modification (db of the writer; db 0 for ghost writers and expiry).
	Present  bool      // the key exists
	Str      string    // its value when it is a string
	ExpireAt time.Time // its expiry (zero = none)
	At       time.Time // model clock at the modification
}

func newDataset() *Dataset {
	return &Dataset{dbs: map[int]map[string]*entry{}, ver: map[string]uint64{}, Epoch: map[string]int{}, tracked: map[string][]*SrvConn{}, bcast: map[*SrvConn]map[string][]string{}}
}

func (d *Dataset) db(i int) map[string]*entry {
	m := d.dbs[i]
	if m == nil {
		m = map[string]*entry{}
		d.dbs[i] = m
	}
	return m
}

// get looks a key up. The value of a string entry is read through entry.val (it may be held as sparse bit pages,
// see cmd_prob.go), never through the str field directly.
func (d *Dataset) get(sc *SrvConn, k string) *entry { return d.db(sc.Sess.DB)[k] }

// Lookup returns the string value of a key in db 0 for oracles ("" and false when missing or not a string).
func (d *Dataset) Lookup(k string) (string, bool) {
	e := d.db(0)[k]
	if e == nil || e.typ != "string" {
		return "", false
	}
	if e.bm != nil {
		if e.bm.n > maxFlatten {
			return "", false
		}
		return e.bm.flat(), true
	}
	return e.str, true
}

// Has reports whether key exists in db 0 (ignores pending lazy expiry).
func (d *Dataset) Has(k string) bool { return d.db(0)[k] != nil }

// Keys returns the sorted keys of db 0.
func (d *Dataset) Keys() []string {
	var ks []string
	for k := range d.db(0) {
		ks = append(ks, k)
	}
	sort.Strings(ks)
	return ks
}

// ExpireAt returns the expiry of a key in db 0 (zero if none or missing).
func (d *Dataset) ExpireAt(k string) time.Time {
	if e := d.db(0)[k]; e != nil {
		return e.expireAt
	}
	return time.Time{}
}

// HashOf returns a copy of the hash stored at key in db 0.
func (d *Dataset) HashOf(k string) map[string]string {
	e := d.db(0)[k]
	if e == nil || e.typ != "hash" {
		return nil
	}
	m := map[string]string{}
	for f, v := range e.hash {
		m[f] = v
	}
	return m
}

// ListOf returns a copy of the list stored at key in db 0.
func (d *Dataset) ListOf(k string) []string {
	e := d.db(0)[k]
	if e == nil || e.typ != "list" {
		return nil
	}
	return append([]string(nil), e.list...)
}

func (d *Dataset) trackKey(sc *SrvConn, k string) {
	for _, c := range d.tracked[k] {
		if c == sc {
			return
		}
	}
	d.tracked[k] = append(d.tracked[k], sc)
}

func (d *Dataset) untrackConn(sc *SrvConn) {
	for k, cs := range d.tracked {
		for i, c := range cs {
			if c == sc {
				d.tracked[k] = append(cs[:i:i], cs[i+1:]...)
				break
			}
		}
		if len(d.tracked[k]) == 0 {
			delete(d.tracked, k)
		}
	}
	delete(d.bcast, sc)
}

// TrackedBy reports whether the connection is remembered as a reader of key.
func (d *Dataset) TrackedBy(k string, conn int) bool {
	for _, c := range d.tracked[k] {
		if c.ID == conn {
			return true
		}
	}
	return false
}

// touch records a modification of key k by connection sc (nil for ghost writers and expiry)
// and emits the invalidations Redis would send.
func (d *Dataset) touch(w *World, sc *SrvConn, k string) {
	d.ver[k]++
	d.Epoch[k]++
	id := -1
	if sc != nil {
		id = sc.ID
	}
	w.seq++
	mod := Mod{Key: k, Epoch: d.Epoch[k], Step: w.Step, Seq: w.seq, Conn: id, At: w.Now()}
	if en := d.db(dbOf(sc))[k]; en != nil {
		mod.Present, mod.ExpireAt = true, en.expireAt
		if en.typ == "string" {
			mod.Str = en.str
		}
	}
	d.Mods = append(d.Mods, mod)
	// default / OPTIN / OPTOUT mode: connections remembered for this key
	if cs := d.tracked[k]; len(cs) > 0 {
		delete(d.tracked, k)
		for _, c := range cs {
			if c.Closed || !c.Sess.Tracking {
				continue
			}
			if c == sc && c.Sess.NoLoop {
				continue
			}
			c.push("invalidate", resp.Push(resp.Bulk("invalidate"), resp.Arr(resp.Bulk(k))))
		}
	}
	// BCAST mode: accumulate per prefix, flushed at the end of the current server event
	for _, c := range allConnsOfDataset(w, d) {
		if c.Closed || !c.Sess.Tracking || c.Sess.TrackMode != "BCAST" {
			continue
		}
		if c == sc && c.Sess.NoLoop {
			continue
		}
		prefixes := c.Sess.Prefixes
		if len(prefixes) == 0 {
			prefixes = []string{""}
		}
		for _, p := range prefixes {
			if strings.HasPrefix(k, p) {
				if d.bcast[c] == nil {
					d.bcast[c] = map[string][]string{}
					d.bcastOrder = append(d.bcastOrder, c)
				}
				dup := false
				for _, x := range d.bcast[c][p] {
					if x == k {
						dup = true
					}
				}
				if !dup {
					d.bcast[c][p] = append(d.bcast[c][p], k)
				}
			}
		}
	}
}

// FlushBroadcast sends the accumulated BCAST invalidations (Redis does this before sleeping).
func (d *Dataset) FlushBroadcast() {
	for _, c := range d.bcastOrder {
		m := d.bcast[c]
		if m == nil {
			continue
		}
		var ps []string
		for p := range m {
			ps = append(ps, p)
		}
		sort.Strings(ps)
		for _, p := range ps {
			keys := m[p]
			arr := make([]resp.Value, len(keys))
			for i, k := range keys {
				arr[i] = resp.Bulk(k)
			}
			c.push("invalidate", resp.Push(resp.Bulk("invalidate"), resp.Arr(arr...)))
		}
		delete(d.bcast, c)
	}
	d.bcastOrder = d.bcastOrder[:0]
}

// flushAll removes every key and tells every tracking connection to drop its cache.
func (d *Dataset) flushAll(w *World, sc *SrvConn) {
	id := -1
	if sc != nil {
		id = sc.ID
	}
	for _, m := range d.dbs {
		for k := range m {
			d.ver[k]++
			d.Epoch[k]++
		}
	}
	d.dbs = map[int]map[string]*entry{}
	d.tracked = map[string][]*SrvConn{}
	d.flushes++
	w.seq++
	d.Mods = append(d.Mods, Mod{Flush: true, Step: w.Step, Seq: w.seq, Conn: id})
	for _, c := range allConnsOfDataset(w, d) {
		if c.Closed || !c.Sess.Tracking {
			continue
		}
		c.push("invalidate", resp.Push(resp.Bulk("invalidate"), resp.Nil()))
	}
}

// Flushes returns how many flushes happened.
func (d *Dataset) Flushes() int { return d.flushes }

func (d *Dataset) del(w *World, sc *SrvConn, k string) bool {
	m := d.db(dbOf(sc))
	if m[k] == nil {
		return false
	}
	delete(m, k)
	d.touch(w, sc, k)
	return true
}

func dbOf(sc *SrvConn) int {
	if sc == nil {
		return 0
	}
	return sc.Sess.DB
}

func (d *Dataset) expireIfNeeded(w *World, sc *SrvConn, k string) {
	m := d.db(dbOf(sc))
	e := m[k]
	if e == nil || e.expireAt.IsZero() {
		return
	}
	now := w.Now()
	if sc != nil {
		now = sc.Node.now()
	}
	if !now.Before(e.expireAt) {
		delete(m, k)
		d.touch(w, nil, k)
	}
}

func (d *Dataset) activeExpire(w *World, n *Node) {
	now := n.now()
	for _, dbi := range sortedInts(d.dbs) {
		m := d.dbs[dbi]
		var ks []string
		for k, e := range m {
			if !e.expireAt.IsZero() && !now.Before(e.expireAt) {
				ks = append(ks, k)
			}
		}
		sort.Strings(ks)
		for _, k := range ks {
			delete(m, k)
			d.touch(w, nil, k)
		}
	}
	d.FlushBroadcast()
}

func sortedInts(m map[int]map[string]*entry) []int {
	var is []int
	for i := range m {
		is = append(is, i)
	}
	sort.Ints(is)
	return is
}
