package fakeredis

// Lua scripting: EVAL, EVALSHA, EVAL_RO, EVALSHA_RO and SCRIPT LOAD / EXISTS / FLUSH / KILL, modelled on Redis 7.2.
//
// Script bodies are executed by verifsim/lualite. Every redis.call / redis.pcall goes through scriptRun.Call, which
// applies to the sub-command the same per-command machinery as a top-level command (command table, arity, lazy
// expiry, invalidation, WATCH dirtying, replica write protection, cluster locality) plus the script-only rules.
//
// Behaviour choices (see also the final report of the change that introduced this file):
//   - scripts talk RESP2 to the commands they call (redis.setresp(3) is a harness gap in lualite): replies are
//     degraded exactly like resp.Encode degrades RESP3 values for a RESP2 session, then converted to Lua;
//   - a script is atomic: blocked clients made ready by the script are served after it has finished, and a blocking
//     command called from a script behaves like its non-blocking form;
//   - values seen or returned by scripts are never tagged (World.TagReads is suspended while a sub-command runs);
//   - by default, reads done by a script do not make the calling connection track the keys. Redis 7 does remember
//     the keys read by the script for the caller (same OPTIN/OPTOUT rules as a top-level read): set
//     World.ScriptReadsTrack to get that. Independently of it, EVAL_RO / EVALSHA_RO carry the READONLY command
//     flag, so their declared keys are tracked by World.run like those of any read-only command;
//   - Exec.Sub records the sub-commands of a script, Exec.ScriptRuns tells that a body actually ran.

import (
	"crypto/sha1"
	"encoding/hex"
	"errors"
	"fmt"
	"math"
	"regexp"
	"strconv"
	"strings"
	"sync"

	"verifsim/lualite"
	"verifsim/resp"
)

func init() {
	evalKeys := func(a []string) []string {
		if len(a) < 3 {
			return nil
		}
		n, ok := atoi(a[2])
		if !ok || n < 0 || n > int64(len(a)-3) {
			return nil
		}
		return a[3 : 3+n]
	}
	reg("EVAL", &cmdSpec{arity: -3, keyFn: evalKeys, fn: func(w *World, sc *SrvConn, e *Exec, a []string) result {
		return rv(cmdEval(w, sc, e, a, false, false))
	}})
	reg("EVALSHA", &cmdSpec{arity: -3, keyFn: evalKeys, fn: func(w *World, sc *SrvConn, e *Exec, a []string) result {
		return rv(cmdEval(w, sc, e, a, true, false))
	}})
	reg("EVAL_RO", &cmdSpec{arity: -3, keyFn: evalKeys, readonly: true, fn: func(w *World, sc *SrvConn, e *Exec, a []string) result {
		return rv(cmdEval(w, sc, e, a, false, true))
	}})
	reg("EVALSHA_RO", &cmdSpec{arity: -3, keyFn: evalKeys, readonly: true, fn: func(w *World, sc *SrvConn, e *Exec, a []string) result {
		return rv(cmdEval(w, sc, e, a, true, true))
	}})
	reg("SCRIPT", &cmdSpec{arity: -2, fn: cmdScript})
}

// noScriptCmds are the commands carrying Redis' NOSCRIPT flag among those the model registers.
var noScriptCmds = map[string]bool{
	"MULTI": true, "EXEC": true, "DISCARD": true, "WATCH": true, "UNWATCH": true,
	"SUBSCRIBE": true, "UNSUBSCRIBE": true, "PSUBSCRIBE": true, "PUNSUBSCRIBE": true, "SSUBSCRIBE": true, "SUNSUBSCRIBE": true,
	"AUTH": true, "HELLO": true, "CLIENT": true, "QUIT": true, "RESET": true, "ROLE": true,
	"EVAL": true, "EVALSHA": true, "EVAL_RO": true, "EVALSHA_RO": true, "SCRIPT": true,
	"FCALL": true, "FCALL_RO": true, "FUNCTION": true, "MONITOR": true, "SYNC": true, "PSYNC": true, "SHUTDOWN": true,
}

// scriptPermUnknown are registered commands whose behaviour inside a script the model does not know: calling them
// from a script is flagged as a harness gap (and refused).
var scriptPermUnknown = map[string]bool{"CLUSTER": true, "SENTINEL": true, "READONLY": true, "READWRITE": true, "ASKING": true}

const (
	errNoScript        = "NOSCRIPT No matching script. Please use EVAL."
	errReadOnlyReplica = "READONLY You can't write against a read only replica."
)

func sha1hex(s string) string {
	sum := sha1.Sum([]byte(s))
	return hex.EncodeToString(sum[:])
}

// compiled chunks are immutable and reusable, and compilation is a pure function of the source: one process-wide
// cache (worlds may live on different goroutines).
var chunkCache sync.Map // source -> compileResult

type compileResult struct {
	c   *lualite.Chunk
	err error
}

func compileScript(src string) (*lualite.Chunk, error) {
	if r, ok := chunkCache.Load(src); ok {
		return r.(compileResult).c, r.(compileResult).err
	}
	c, err := lualite.Compile(src)
	chunkCache.Store(src, compileResult{c, err})
	return c, err
}

// compileReply turns a compilation failure into the reply Redis gives, nil when the script compiled.
func compileReply(w *World, err error) *resp.Value {
	if err == nil {
		return nil
	}
	var v resp.Value
	var se *lualite.ScriptError
	if errors.As(err, &se) {
		v = resp.Err("ERR " + oneLine(se.Msg))
	} else {
		w.gap("script not supported by lualite: %v", err)
		v = resp.Err("ERR harness gap: " + oneLine(err.Error()))
	}
	return &v
}

func oneLine(s string) string {
	return strings.NewReplacer("\r\n", " ", "\r", " ", "\n", " ").Replace(s)
}

func cmdScript(w *World, sc *SrvConn, e *Exec, a []string) result {
	n := sc.Node
	sub := up(a[1])
	arity := func(ok bool) *result {
		if ok {
			return nil
		}
		r := rv(resp.Err(fmt.Sprintf("ERR wrong number of arguments for 'script|%s' command", strings.ToLower(a[1]))))
		return &r
	}
	switch sub {
	case "LOAD":
		if r := arity(len(a) == 3); r != nil {
			return *r
		}
		_, err := compileScript(a[2])
		if v := compileReply(w, err); v != nil {
			return rv(*v)
		}
		sha := sha1hex(a[2])
		n.Scripts[sha] = a[2]
		return rv(resp.Bulk(sha))
	case "EXISTS":
		if r := arity(len(a) >= 3); r != nil {
			return *r
		}
		out := resp.Arr()
		for _, s := range a[2:] {
			_, ok := n.Scripts[s] // the lookup is case sensitive, unlike EVALSHA
			out.A = append(out.A, resp.Int(b2i(ok)))
		}
		return rv(out)
	case "FLUSH":
		if r := arity(len(a) == 2 || len(a) == 3); r != nil {
			return *r
		}
		if len(a) == 3 && up(a[2]) != "SYNC" && up(a[2]) != "ASYNC" {
			return rv(resp.Err("ERR SCRIPT FLUSH only support SYNC|ASYNC option"))
		}
		for k := range n.Scripts {
			delete(n.Scripts, k)
		}
		return rv(resp.OK())
	case "KILL":
		if r := arity(len(a) == 2); r != nil {
			return *r
		}
		return rv(resp.Err("NOTBUSY No scripts in execution right now."))
	}
	w.gap("SCRIPT %s is not modelled", a[1])
	return rv(resp.Err(fmt.Sprintf("ERR unknown subcommand '%s'. Try SCRIPT HELP.", a[1])))
}

func b2i(b bool) int64 {
	if b {
		return 1
	}
	return 0
}

// cmdEval implements the four EVAL variants.
func cmdEval(w *World, sc *SrvConn, e *Exec, a []string, bySha, ro bool) resp.Value {
	if bySha && len(a[1]) != 40 {
		return resp.Err(errNoScript)
	}
	numkeys, ok := atoi(a[2])
	if !ok {
		return errNotInt()
	}
	if numkeys > int64(len(a)-3) {
		return resp.Err("ERR Number of keys can't be greater than number of args")
	}
	if numkeys < 0 {
		return resp.Err("ERR Number of keys can't be negative")
	}
	n := sc.Node
	var src, sha string
	if bySha {
		sha = strings.ToLower(a[1])
		if src, ok = n.Scripts[sha]; !ok {
			return resp.Err(errNoScript)
		}
	} else {
		src, sha = a[1], sha1hex(a[1])
	}
	chunk, err := compileScript(src)
	if v := compileReply(w, err); v != nil {
		return *v
	}
	n.Scripts[sha] = src // EVAL caches the script
	run := &scriptRun{w: w, sc: sc, e: e, ro: ro, sha: sha}
	return run.run(chunk, a[3:3+numkeys], a[3+numkeys:])
}

// scriptRun is the execution of one script body. It is the lualite.Host of the script.
type scriptRun struct {
	w     *World
	sc    *SrvConn
	e     *Exec // the EVAL command
	ro    bool
	sha   string
	serve []*Node // nodes whose blocked clients became servable during the script
}

func (s *scriptRun) deferServe(n *Node) {
	for _, x := range s.serve {
		if x == n {
			return
		}
	}
	s.serve = append(s.serve, n)
}

func (s *scriptRun) run(chunk *lualite.Chunk, keys, args []string) resp.Value {
	w := s.w
	if w.script != nil {
		panic("fakeredis: nested script execution")
	}
	s.e.ScriptRuns = 1
	val, err := s.body(chunk, keys, args)
	for _, n := range s.serve {
		w.serveBlocked(n)
	}
	if err != nil {
		return s.errorReply(err)
	}
	return s.luaToResp(val, 0)
}

// body runs the chunk with this scriptRun installed as the world's current script.
func (s *scriptRun) body(chunk *lualite.Chunk, keys, args []string) (lualite.Value, error) {
	w, sc := s.w, s.sc
	db := sc.Sess.DB
	w.script = s
	defer func() {
		w.script = nil
		sc.Sess.DB = db // SELECT inside a script does not leak to the caller
		w.curExec = s.e
	}()
	return chunk.Run(keys, args, s)
}

var userScriptLine = regexp.MustCompile(`^user_script:(\d+):`)

// errorReply builds the error reply of a script that failed: the message of a failed redis.call verbatim (it starts
// with its own error code), any other error value behind "ERR ", then Redis 7's " script: SHA, on @user_script:N."
// trailer when the line is known.
func (s *scriptRun) errorReply(err error) resp.Value {
	var se *lualite.ScriptError
	if !errors.As(err, &se) {
		s.w.gap("script %s not supported by lualite: %v", s.sha, err)
		return resp.Err("ERR harness gap: " + oneLine(err.Error()))
	}
	if se.Budget {
		s.w.gap("script %s exceeded the lualite step budget (a real server would keep running it)", s.sha)
	}
	msg := se.Msg
	if !se.Table {
		msg = "ERR " + msg
	}
	line := se.Line
	if m := userScriptLine.FindStringSubmatch(se.Msg); m != nil {
		line, _ = strconv.Atoi(m[1])
	}
	if line > 0 {
		msg += fmt.Sprintf(" script: %s, on @user_script:%d.", s.sha, line)
	}
	return resp.Err(oneLine(msg))
}

// Call executes one redis.call / redis.pcall.
func (s *scriptRun) Call(args []string) (lualite.Value, error) {
	w, sc := s.w, s.sc
	w.seq++
	sub := &Exec{Seq: w.seq, Conn: sc.ID, ConnSeq: s.e.ConnSeq, Node: sc.Node.Addr, Role: sc.Node.Role, Argv: args, At: w.Now(), Step: w.Step, InExec: s.e.InExec, Sess: s.e.Sess}
	s.e.Sub = append(s.e.Sub, sub)
	sub.Reply = s.dispatch(sub, args)
	v := degradeToRESP2(sub.Reply)
	if v.IsErr() {
		return nil, errors.New(v.S)
	}
	return respToLua(v), nil
}

// dispatch checks and runs a sub-command, in the order Redis' scriptCall checks things.
func (s *scriptRun) dispatch(sub *Exec, args []string) resp.Value {
	w, sc, n := s.w, s.sc, s.sc.Node
	name := up(args[0])
	spec, known := specs[name]
	if !known || (name == "HELLO" && n.NoHello) {
		w.gap("unknown command %q called from script (argv %q)", name, args)
		return resp.Err("ERR Unknown Redis command called from script")
	}
	if spec.arity > 0 && len(args) != spec.arity || spec.arity < 0 && len(args) < -spec.arity {
		return resp.Err("ERR Wrong number of args calling Redis command from script")
	}
	if noScriptCmds[name] || spec.pubsub {
		return resp.Err("ERR This Redis command is not allowed from script")
	}
	if scriptPermUnknown[name] {
		w.gap("%s called from a script is not modelled", name)
		return resp.Err("ERR This Redis command is not allowed from script")
	}
	if spec.write {
		if s.ro {
			return resp.Err("ERR Write commands are not allowed from read-only scripts.")
		}
		if n.Role == "slave" {
			return resp.Err(errReadOnlyReplica)
		}
	}
	if w.Cluster != nil && n.ClusterEnabled {
		if _, redirected := w.Cluster.check(sc, name, spec, args); redirected {
			return resp.Err("ERR Script attempted to access a non local key in a cluster node")
		}
	}
	keys := spec.keys(args)
	for _, k := range keys {
		n.DBs.expireIfNeeded(w, sc, k)
	}
	tag := w.TagReads
	w.TagReads = false // scripts see raw values
	w.curExec = sub
	res := spec.fn(w, sc, sub, args)
	w.TagReads = tag
	if res.blocked {
		// a blocking command in a script behaves as if its timeout had expired at once
		sc.blocked = nil
		return resp.NullArr()
	}
	if w.ScriptReadsTrack && spec.readonly && !res.v.IsErr() && cachingAllowsTracking(sc) {
		for _, k := range keys {
			n.DBs.trackKey(sc, k)
		}
	}
	return res.v
}

// cachingAllowsTracking is the rule World.run applies to decide whether a read is remembered for invalidation.
func cachingAllowsTracking(sc *SrvConn) bool {
	if !sc.Sess.Tracking || sc.Sess.TrackMode == "BCAST" {
		return false
	}
	switch sc.Sess.TrackMode {
	case "OPTIN":
		return sc.caching == 1
	case "OPTOUT":
		return sc.caching != -1
	}
	return true
}

// degradeToRESP2 renders v the way a RESP2 session sees it (maps and sets flatten to arrays, doubles and big numbers
// become bulk strings, booleans integers, attributes vanish, ...), by going through the package's own encoder.
func degradeToRESP2(v resp.Value) resp.Value {
	out, _, err := resp.ParseValue(resp.Encode(nil, v, 2))
	if err != nil {
		panic("fakeredis: cannot re-read a RESP2 reply: " + err.Error())
	}
	return out
}

// respToLua converts a RESP2 reply to the Lua value redis.call returns (errors nested in arrays become {err=...}).
func respToLua(v resp.Value) lualite.Value {
	switch v.T {
	case ':':
		return float64(v.I)
	case '$':
		if v.Null {
			return false
		}
		return v.S
	case '+':
		t := lualite.NewTable()
		t.Set("ok", v.S)
		return t
	case '-':
		t := lualite.NewTable()
		t.Set("err", v.S)
		return t
	case '*':
		if v.Null {
			return false
		}
		t := lualite.NewTable()
		for _, x := range v.A {
			t.Append(respToLua(x))
		}
		return t
	}
	panic(fmt.Sprintf("fakeredis: unexpected RESP2 type %q in a reply to a script", v.T))
}

// luaToResp converts the value returned by a script (script client in RESP2 mode, the default).
func (s *scriptRun) luaToResp(v lualite.Value, depth int) resp.Value {
	switch x := v.(type) {
	case nil:
		return resp.Nil()
	case bool:
		if x {
			return resp.Int(1)
		}
		return resp.Nil()
	case float64:
		return resp.Int(luaNumberToInt(x))
	case string:
		return resp.Bulk(x)
	case *lualite.Table:
		return s.tableToResp(x, depth)
	}
	return resp.Nil() // functions
}

func (s *scriptRun) tableToResp(t *lualite.Table, depth int) resp.Value {
	if depth > 1000 {
		s.w.gap("script %s returned a table nested deeper than 1000 levels", s.sha)
		return resp.Err("ERR reached lua stack limit")
	}
	if m, ok := t.Get("err").(string); ok {
		return resp.Err(oneLine(m))
	}
	if m, ok := t.Get("ok").(string); ok {
		return resp.Simple(oneLine(m))
	}
	if f, ok := t.Get("double").(float64); ok {
		return resp.Double(formatScriptDouble(f))
	}
	for _, field := range []string{"map", "set", "big_number", "verbatim_string"} {
		if t.Get(field) != nil {
			s.w.gap("script %s returned a table with a %q field (RESP3 style reply) which is not modelled", s.sha, field)
		}
	}
	out := resp.Arr()
	for i := 1; ; i++ {
		x := t.Get(float64(i))
		if x == nil {
			break
		}
		out.A = append(out.A, s.luaToResp(x, depth+1))
	}
	return out
}

// luaNumberToInt is C's (long long) conversion: truncation toward zero; NaN and out-of-range values give what
// x86-64 gives (the minimum integer).
func luaNumberToInt(f float64) int64 {
	if f != f || f >= 9223372036854775808.0 || f < -9223372036854775808.0 {
		return math.MinInt64
	}
	return int64(f)
}

func formatScriptDouble(f float64) string {
	switch {
	case math.IsInf(f, 1):
		return "inf"
	case math.IsInf(f, -1):
		return "-inf"
	case f != f:
		return "nan"
	}
	// Redis 7.2's d2string: integral values in the exactly representable range print as integers, the rest in the
	// shortest form that round-trips
	if f == math.Trunc(f) && math.Abs(f) < 1<<52 {
		return strconv.FormatInt(int64(f), 10)
	}
	return strconv.FormatFloat(f, 'g', -1, 64)
}
