package fakeredis

// Commands needed by the rueidis add-on modules that cmd_data.go does not have: bitmaps (BITFIELD, BITFIELD_RO,
// SETBIT, GETBIT, BITCOUNT), RENAME / RENAMENX, GETEX, INCRBYFLOAT and HINCRBYFLOAT. Semantics follow Redis 7.2
// (bitops.c, db.c, t_string.c, t_hash.c).

import (
	"math/big"
	"strings"
	"time"

	"verifsim/resp"
)

func init() {
	reg("BITFIELD", &cmdSpec{arity: -2, first: 1, last: 1, write: true, fn: func(w *World, sc *SrvConn, e *Exec, a []string) result {
		return rv(cmdBitfield(w, sc, a, false))
	}})
	reg("BITFIELD_RO", &cmdSpec{arity: -2, first: 1, last: 1, readonly: true, fn: func(w *World, sc *SrvConn, e *Exec, a []string) result {
		return rv(cmdBitfield(w, sc, a, true))
	}})
	reg("SETBIT", &cmdSpec{arity: 4, first: 1, last: 1, write: true, fn: cmdSetbit})
	reg("GETBIT", &cmdSpec{arity: 3, first: 1, last: 1, readonly: true, fn: cmdGetbit})
	reg("BITCOUNT", &cmdSpec{arity: -2, first: 1, last: 1, readonly: true, fn: cmdBitcount})
	reg("RENAME", &cmdSpec{arity: 3, first: 1, last: 2, write: true, fn: func(w *World, sc *SrvConn, e *Exec, a []string) result {
		return rv(cmdRename(w, sc, a, false))
	}})
	reg("RENAMENX", &cmdSpec{arity: 3, first: 1, last: 2, write: true, fn: func(w *World, sc *SrvConn, e *Exec, a []string) result {
		return rv(cmdRename(w, sc, a, true))
	}})
	reg("GETEX", &cmdSpec{arity: -2, first: 1, last: 1, write: true, fn: cmdGetex})
	reg("INCRBYFLOAT", &cmdSpec{arity: 3, first: 1, last: 1, write: true, fn: cmdIncrByFloat})
	reg("HINCRBYFLOAT", &cmdSpec{arity: 4, first: 1, last: 1, write: true, fn: cmdHIncrByFloat})
}

// ---- bitmaps ----

const protoMaxBulkLen = 512 << 20 // Redis' default proto-max-bulk-len: the limit of bit offsets, in bytes

func errBitOffset() resp.Value {
	return resp.Err("ERR bit offset is not an integer or out of range")
}

// parseBitOffset is getBitOffsetFromArgument: a non-negative integer, "#N" meaning N*bits when hash is allowed.
func parseBitOffset(s string, hash bool, bits int) (uint64, bool) {
	usehash := hash && strings.HasPrefix(s, "#")
	if usehash {
		s = s[1:]
	}
	off, ok := atoi(s)
	if !ok {
		return 0, false
	}
	if usehash {
		if off > 0 && off > (1<<62)/int64(bits) {
			return 0, false
		}
		off *= int64(bits)
	}
	if off < 0 || off>>3 >= protoMaxBulkLen {
		return 0, false
	}
	return uint64(off), true
}

// stringForBits is lookupStringForBitCommand: the string at key, created or zero-padded so that bit maxbit exists.
// dirty reports that the string was created or grew. Long bitmaps are held sparsely (cmd_prob.go), so every offset
// Redis accepts is within the model's reach.
func stringForBits(sc *SrvConn, key string, maxbit uint64) (en *entry, dirty, wrongType bool) {
	d := sc.Node.DBs
	en = d.get(sc, key)
	if en != nil && en.typ != "string" {
		return nil, false, true
	}
	need := int(maxbit>>3) + 1
	if en == nil {
		en = &entry{typ: "string"}
		d.db(sc.Sess.DB)[key] = en
		en.growBits(need)
		return en, true, false
	}
	return en, en.growBits(need), false
}

func getBit(s string, off uint64) uint64 {
	i := off >> 3
	if i >= uint64(len(s)) {
		return 0
	}
	return uint64(s[i]>>(7-off&7)) & 1
}

func getUnsignedBits(s bitSource, off uint64, bits int) uint64 {
	v := uint64(0)
	for j := 0; j < bits; j++ {
		v = v<<1 | s.bit(off+uint64(j))
	}
	return v
}

func getSignedBits(s bitSource, off uint64, bits int) int64 {
	v := getUnsignedBits(s, off, bits)
	if bits < 64 && v&(1<<(bits-1)) != 0 {
		v |= ^uint64(0) << bits
	}
	return int64(v)
}

func setBits(b []byte, off uint64, bits int, v uint64) {
	for j := 0; j < bits; j++ {
		bit := (v >> (bits - 1 - j)) & 1
		p := off + uint64(j)
		mask := byte(0x80 >> (p & 7))
		if bit != 0 {
			b[p>>3] |= mask
		} else {
			b[p>>3] &^= mask
		}
	}
}

type bitfieldOp struct {
	op       string // GET SET INCRBY
	signed   bool
	bits     int
	off      uint64
	val      int64
	overflow string // WRAP SAT FAIL
}

// parseBitfieldType is getBitfieldTypeFromArgument.
func parseBitfieldType(s string) (signed bool, bits int, ok bool) {
	if len(s) < 2 || (s[0] != 'i' && s[0] != 'u') {
		return false, 0, false
	}
	n, isInt := atoi(s[1:])
	signed = s[0] == 'i'
	if !isInt || n < 1 || (signed && n > 64) || (!signed && n > 63) {
		return false, 0, false
	}
	return signed, int(n), true
}

func parseBitfield(a []string) ([]bitfieldOp, *resp.Value) {
	fail := func(v resp.Value) ([]bitfieldOp, *resp.Value) { return nil, &v }
	var ops []bitfieldOp
	overflow := "WRAP"
	for j := 2; j < len(a); j++ {
		rem := len(a) - j - 1
		op := up(a[j])
		switch {
		case op == "GET" && rem >= 2, op == "SET" && rem >= 3, op == "INCRBY" && rem >= 3:
		case op == "OVERFLOW" && rem >= 1:
			overflow = up(a[j+1])
			if overflow != "WRAP" && overflow != "SAT" && overflow != "FAIL" {
				return fail(resp.Err("ERR Invalid OVERFLOW type specified"))
			}
			j++
			continue
		default:
			return fail(errSyntax())
		}
		signed, bits, ok := parseBitfieldType(a[j+1])
		if !ok {
			return fail(resp.Err("ERR Invalid bitfield type. Use something like i16 u8. Note that u64 is not supported but i64 is."))
		}
		off, ok := parseBitOffset(a[j+2], true, bits)
		if !ok {
			return fail(errBitOffset())
		}
		o := bitfieldOp{op: op, signed: signed, bits: bits, off: off, overflow: overflow}
		if op != "GET" {
			if o.val, ok = atoi(a[j+3]); !ok {
				return fail(errNotInt())
			}
			j++
		}
		j += 2
		ops = append(ops, o)
	}
	return ops, nil
}

// unsignedOverflow is checkUnsignedBitfieldOverflow: 0 no overflow, else the direction; limit is the value to store
// for WRAP and SAT.
func unsignedOverflow(value uint64, incr int64, bits int, ow string) (dir int, limit uint64) {
	max := uint64(1)<<bits - 1
	maxincr := int64(max - value)
	minincr := int64(-value)
	wrap := func() uint64 { return (value + uint64(incr)) & max }
	switch {
	case value > max || (incr > 0 && incr > maxincr):
		if ow == "SAT" {
			return 1, max
		}
		return 1, wrap()
	case incr < 0 && incr < minincr:
		if ow == "SAT" {
			return -1, 0
		}
		return -1, wrap()
	}
	return 0, 0
}

// signedOverflow is checkSignedBitfieldOverflow.
func signedOverflow(value, incr int64, bits int, ow string) (dir int, limit int64) {
	max := int64(1<<63 - 1)
	if bits < 64 {
		max = int64(1)<<(bits-1) - 1
	}
	min := -max - 1
	maxincr := int64(uint64(max) - uint64(value))
	minincr := min - value
	wrap := func() int64 {
		c := uint64(value) + uint64(incr)
		if bits < 64 {
			mask := ^uint64(0) << bits
			if c&(uint64(1)<<(bits-1)) != 0 {
				c |= mask
			} else {
				c &^= mask
			}
		}
		return int64(c)
	}
	switch {
	case value > max || (bits != 64 && incr > maxincr) || (value >= 0 && incr > 0 && incr > maxincr):
		if ow == "SAT" {
			return 1, max
		}
		return 1, wrap()
	case value < min || (bits != 64 && incr < minincr) || (value < 0 && incr < 0 && incr < minincr):
		if ow == "SAT" {
			return -1, min
		}
		return -1, wrap()
	}
	return 0, 0
}

func cmdBitfield(w *World, sc *SrvConn, a []string, ro bool) resp.Value {
	ops, errv := parseBitfield(a)
	if errv != nil {
		return *errv
	}
	readonly, highest := true, uint64(0)
	for _, o := range ops {
		if o.op != "GET" {
			readonly = false
			if end := o.off + uint64(o.bits) - 1; end > highest {
				highest = end
			}
		}
	}
	d := sc.Node.DBs
	var en *entry
	dirty := false
	if readonly {
		if en = d.get(sc, a[1]); en != nil && en.typ != "string" {
			return errWrongType()
		}
	} else {
		if ro {
			return resp.Err("ERR BITFIELD_RO only supports the GET subcommand")
		}
		var wrong bool
		if en, dirty, wrong = stringForBits(sc, a[1], highest); wrong {
			return errWrongType()
		}
	}
	out := resp.Arr()
	changes := 0
	for _, o := range ops {
		cur := en.bits()
		if o.op == "GET" {
			if o.signed {
				out.A = append(out.A, resp.Int(getSignedBits(cur, o.off, o.bits)))
			} else {
				out.A = append(out.A, resp.Int(int64(getUnsignedBits(cur, o.off, o.bits))))
			}
			continue
		}
		reply, newbits, changed, failed := bitfieldWrite(cur, o)
		if failed {
			out.A = append(out.A, resp.Nil())
			continue
		}
		out.A = append(out.A, resp.Int(reply))
		if changed {
			en.writeBits(o.off, o.bits, newbits)
		}
		if dirty || changed {
			changes++
		}
	}
	if changes > 0 {
		d.touch(w, sc, a[1])
	}
	return out
}

// bitfieldWrite computes one SET or INCRBY: the integer to reply, the bits to store, whether they differ from the
// current ones, and whether the operation is skipped because of OVERFLOW FAIL.
func bitfieldWrite(cur bitSource, o bitfieldOp) (reply int64, newbits uint64, changed, failed bool) {
	if o.signed {
		old := getSignedBits(cur, o.off, o.bits)
		var nv int64
		var dir int
		var limit int64
		if o.op == "INCRBY" {
			nv = old + o.val
			dir, limit = signedOverflow(old, o.val, o.bits, o.overflow)
			reply = nv
		} else {
			nv = o.val
			dir, limit = signedOverflow(nv, 0, o.bits, o.overflow)
			reply = old
		}
		if dir != 0 {
			if o.overflow == "FAIL" {
				return 0, 0, false, true
			}
			nv = limit
			if o.op == "INCRBY" {
				reply = nv
			}
		}
		return reply, uint64(nv), old != nv, false
	}
	old := getUnsignedBits(cur, o.off, o.bits)
	var nv uint64
	var dir int
	var limit uint64
	if o.op == "INCRBY" {
		nv = old + uint64(o.val)
		dir, limit = unsignedOverflow(old, o.val, o.bits, o.overflow)
		reply = int64(nv)
	} else {
		nv = uint64(o.val)
		dir, limit = unsignedOverflow(nv, 0, o.bits, o.overflow)
		reply = int64(old)
	}
	if dir != 0 {
		if o.overflow == "FAIL" {
			return 0, 0, false, true
		}
		nv = limit
		if o.op == "INCRBY" {
			reply = int64(nv)
		}
	}
	return reply, nv, old != nv, false
}

func cmdSetbit(w *World, sc *SrvConn, e *Exec, a []string) result {
	off, ok := parseBitOffset(a[2], false, 0)
	if !ok {
		return rv(errBitOffset())
	}
	on, ok := atoi(a[3])
	if !ok || on&^1 != 0 {
		return rv(resp.Err("ERR bit is not an integer or out of range"))
	}
	en, dirty, wrong := stringForBits(sc, a[1], off)
	if wrong {
		return rv(errWrongType())
	}
	old := en.bits().bit(off)
	if dirty || old != uint64(on) {
		if old != uint64(on) {
			en.writeBits(off, 1, uint64(on))
		}
		sc.Node.DBs.touch(w, sc, a[1])
	}
	return rv(resp.Int(int64(old)))
}

func cmdGetbit(w *World, sc *SrvConn, e *Exec, a []string) result {
	off, ok := parseBitOffset(a[2], false, 0)
	if !ok {
		return rv(errBitOffset())
	}
	en := sc.Node.DBs.get(sc, a[1])
	if en == nil {
		return rv(resp.Int(0))
	}
	if en.typ != "string" {
		return rv(errWrongType())
	}
	return rv(resp.Int(int64(en.bits().bit(off))))
}

func cmdBitcount(w *World, sc *SrvConn, e *Exec, a []string) result {
	var start, end int64
	isBit, ranged := false, false
	switch len(a) {
	case 2:
	case 4, 5:
		var ok1, ok2 bool
		start, ok1 = atoi(a[2])
		end, ok2 = atoi(a[3])
		if !ok1 || !ok2 {
			return rv(errNotInt())
		}
		if len(a) == 5 {
			switch up(a[4]) {
			case "BIT":
				isBit = true
			case "BYTE":
			default:
				return rv(errSyntax())
			}
		}
		ranged = true
	default:
		return rv(errSyntax())
	}
	en := sc.Node.DBs.get(sc, a[1])
	if en == nil {
		return rv(resp.Int(0))
	}
	if en.typ != "string" {
		return rv(errWrongType())
	}
	tot := int64(en.bits().byteLen())
	if isBit {
		tot *= 8
	}
	if !ranged {
		start, end = 0, tot-1
	}
	if start < 0 {
		start += tot
	}
	if end < 0 {
		end += tot
	}
	if start < 0 {
		start = 0
	}
	if end < 0 {
		end = 0
	}
	if end >= tot {
		end = tot - 1
	}
	if start > end {
		return rv(resp.Int(0))
	}
	if !isBit {
		start, end = start*8, end*8+7
	}
	if en.bm != nil {
		return rv(resp.Int(en.bm.popcount(uint64(start), uint64(end))))
	}
	n := int64(0)
	for p := start; p <= end; p++ {
		n += int64(getBit(en.str, uint64(p)))
	}
	return rv(resp.Int(n))
}

// ---- keyspace ----

func cmdRename(w *World, sc *SrvConn, a []string, nx bool) resp.Value {
	d := sc.Node.DBs
	m := d.db(sc.Sess.DB)
	en := m[a[1]]
	if en == nil {
		return resp.Err("ERR no such key")
	}
	if a[1] == a[2] {
		if nx {
			return resp.Int(0)
		}
		return resp.OK()
	}
	if m[a[2]] != nil {
		if nx {
			return resp.Int(0)
		}
		delete(m, a[2]) // overwritten together with its expiry; the entry keeps the expiry of the source
	}
	delete(m, a[1])
	m[a[2]] = en
	d.touch(w, sc, a[1])
	d.touch(w, sc, a[2])
	if en.typ == "list" {
		w.serveBlocked(sc.Node)
	}
	if nx {
		return resp.Int(1)
	}
	return resp.OK()
}

func cmdGetex(w *World, sc *SrvConn, e *Exec, a []string) result {
	var at time.Time
	persist, expire, absolute := false, false, false
	now := sc.Node.now()
	for i := 2; i < len(a); i++ {
		opt := up(a[i])
		switch opt {
		case "PERSIST":
			if expire || persist {
				return rv(errSyntax())
			}
			persist = true
		case "EX", "PX", "EXAT", "PXAT":
			if expire || persist || i+1 >= len(a) {
				return rv(errSyntax())
			}
			v, ok := atoi(a[i+1])
			if !ok {
				return rv(errNotInt())
			}
			if v <= 0 {
				return rv(resp.Err("ERR invalid expire time in 'getex' command"))
			}
			switch opt {
			case "EX":
				at = now.Add(time.Duration(v) * time.Second)
			case "PX":
				at = now.Add(time.Duration(v) * time.Millisecond)
			case "EXAT":
				at, absolute = time.Unix(v, 0), true
			case "PXAT":
				at, absolute = time.UnixMilli(v), true
			}
			expire = true
			i++
		default:
			return rv(errSyntax())
		}
	}
	d := sc.Node.DBs
	en := d.get(sc, a[1])
	if en == nil {
		return rv(resp.Nil())
	}
	if en.typ != "string" {
		return rv(errWrongType())
	}
	val := resp.Bulk(en.val(w))
	switch {
	case expire && absolute && !at.After(now):
		d.del(w, sc, a[1])
	case expire:
		en.expireAt = at
		d.touch(w, sc, a[1])
	case persist && !en.expireAt.IsZero():
		en.expireAt = time.Time{}
		d.touch(w, sc, a[1])
	}
	return rv(val)
}

// ---- floats (Redis computes with x87 long doubles: 64 bits of mantissa) ----

func parseLongDouble(s string) (*big.Float, bool) {
	if s == "" || isSpaceByte(s[0]) || isSpaceByte(s[len(s)-1]) {
		return nil, false
	}
	f, _, err := big.ParseFloat(s, 10, 64, big.ToNearestEven)
	if err != nil {
		return nil, false
	}
	return f, true
}

func isSpaceByte(c byte) bool { return c == ' ' || (c >= '\t' && c <= '\r') }

// formatLongDouble is ld2string(LD_STR_HUMAN): "%.17Lf" without trailing zeros.
func formatLongDouble(f *big.Float) string {
	s := f.Text('f', 17)
	if strings.Contains(s, ".") {
		s = strings.TrimRight(s, "0")
		s = strings.TrimSuffix(s, ".")
	}
	if s == "-0" {
		s = "0"
	}
	return s
}

// addLongDouble returns cur+incr, ok=false when the result is NaN or infinite.
func addLongDouble(cur, incr *big.Float) (sum *big.Float, ok bool) {
	if cur.IsInf() && incr.IsInf() && cur.Sign() != incr.Sign() {
		return nil, false
	}
	sum = new(big.Float).SetPrec(64).SetMode(big.ToNearestEven).Add(cur, incr)
	return sum, !sum.IsInf()
}

func cmdIncrByFloat(w *World, sc *SrvConn, e *Exec, a []string) result {
	en := sc.Node.DBs.get(sc, a[1])
	if en != nil && en.typ != "string" {
		return rv(errWrongType())
	}
	cur, exp := new(big.Float).SetPrec(64), time.Time{}
	if en != nil {
		var ok bool
		if cur, ok = parseLongDouble(en.val(w)); !ok {
			return rv(resp.Err("ERR value is not a valid float"))
		}
		exp = en.expireAt
	}
	incr, ok := parseLongDouble(a[2])
	if !ok {
		return rv(resp.Err("ERR value is not a valid float"))
	}
	sum, ok := addLongDouble(cur, incr)
	if !ok {
		return rv(resp.Err("ERR increment would produce NaN or Infinity"))
	}
	s := formatLongDouble(sum)
	setString(w, sc, a[1], s, exp)
	return rv(resp.Bulk(s))
}

func cmdHIncrByFloat(w *World, sc *SrvConn, e *Exec, a []string) result {
	incr, ok := parseLongDouble(a[3])
	if !ok {
		return rv(resp.Err("ERR value is not a valid float"))
	}
	en := sc.Node.DBs.get(sc, a[1])
	if en != nil && en.typ != "hash" {
		return rv(errWrongType())
	}
	cur := new(big.Float).SetPrec(64)
	if en != nil {
		if s, exists := en.hash[a[2]]; exists {
			if cur, ok = parseLongDouble(s); !ok {
				return rv(resp.Err("ERR hash value is not a float"))
			}
		}
	}
	sum, ok := addLongDouble(cur, incr)
	if !ok {
		return rv(resp.Err("ERR increment would produce NaN or Infinity"))
	}
	s := formatLongDouble(sum)
	cmdHSet(w, sc, e, []string{"HSET", a[1], a[2], s})
	return rv(resp.Bulk(s))
}
