package fakeredis

import (
	"fmt"
	"math"
	"strconv"
	"strings"

	"verifsim/resp"
)

func init() {
	reg("HELLO", &cmdSpec{arity: -1, noMulti: true, fn: cmdHello})
	reg("AUTH", &cmdSpec{arity: -2, noMulti: true, fn: cmdAuth})
	reg("PING", &cmdSpec{arity: -1, fn: cmdPing})
	reg("ECHO", &cmdSpec{arity: 2, fn: func(w *World, sc *SrvConn, e *Exec, a []string) result { return rv(resp.Bulk(a[1])) }})
	reg("SELECT", &cmdSpec{arity: 2, fn: cmdSelect})
	reg("QUIT", &cmdSpec{arity: -1, fn: func(w *World, sc *SrvConn, e *Exec, a []string) result { return rv(resp.OK()) }})
	reg("CLIENT", &cmdSpec{arity: -2, fn: cmdClient})
	reg("READONLY", &cmdSpec{arity: 1, fn: cmdReadonly})
	reg("READWRITE", &cmdSpec{arity: 1, fn: func(w *World, sc *SrvConn, e *Exec, a []string) result {
		if !sc.Node.ClusterEnabled {
			return rv(resp.Err("ERR This instance has cluster support disabled"))
		}
		sc.Sess.ReadOnly = false
		return rv(resp.OK())
	}})
	reg("ASKING", &cmdSpec{arity: 1, fn: func(w *World, sc *SrvConn, e *Exec, a []string) result {
		if !sc.Node.ClusterEnabled {
			return rv(resp.Err("ERR This instance has cluster support disabled"))
		}
		sc.asking = true
		return rv(resp.OK())
	}})
	reg("INFO", &cmdSpec{arity: -1, fn: cmdInfo})
	reg("ROLE", &cmdSpec{arity: 1, fn: cmdRole})
	reg("TIME", &cmdSpec{arity: 1, fn: func(w *World, sc *SrvConn, e *Exec, a []string) result {
		t := sc.Node.now()
		return rv(resp.Strs(strconv.FormatInt(t.Unix(), 10), strconv.FormatInt(int64(t.Nanosecond()/1000), 10)))
	}})
	reg("DBSIZE", &cmdSpec{arity: 1, readonly: true, fn: func(w *World, sc *SrvConn, e *Exec, a []string) result {
		return rv(resp.Int(int64(len(sc.Node.DBs.db(sc.Sess.DB)))))
	}})
	reg("FLUSHALL", &cmdSpec{arity: -1, write: true, fn: func(w *World, sc *SrvConn, e *Exec, a []string) result {
		sc.Node.DBs.flushAll(w, sc)
		return rv(resp.OK())
	}})
	reg("FLUSHDB", &cmdSpec{arity: -1, write: true, fn: func(w *World, sc *SrvConn, e *Exec, a []string) result {
		sc.Node.DBs.flushAll(w, sc)
		return rv(resp.OK())
	}})
	reg("VARGS", &cmdSpec{arity: -2, fn: func(w *World, sc *SrvConn, e *Exec, a []string) result { return rv(resp.Int(int64(len(a)))) }})
	reg("VTAG", &cmdSpec{arity: -3, readonly: true, fn: cmdVTag})
	reg("VKTAG", &cmdSpec{arity: -4, first: 1, last: 1, readonly: true, fn: cmdVKTag})
	reg("VWTAG", &cmdSpec{arity: -3, first: 1, last: 1, write: true, fn: cmdVWTag})
}

func cmdHello(w *World, sc *SrvConn, e *Exec, a []string) result {
	n := sc.Node
	proto := sc.Sess.Proto
	i := 1
	if len(a) > 1 {
		p, ok := atoi(a[1])
		if !ok || p < 2 || p > 3 {
			return rv(resp.Err("NOPROTO unsupported protocol version"))
		}
		proto = int(p)
		i = 2
	}
	name := ""
	setname := false
	for i < len(a) {
		switch up(a[i]) {
		case "AUTH":
			if i+2 >= len(a) {
				return rv(errSyntax())
			}
			if v := n.auth(sc, a[i+1], a[i+2]); v.IsErr() {
				return rv(v)
			}
			i += 3
		case "SETNAME":
			if i+1 >= len(a) {
				return rv(errSyntax())
			}
			name, setname = a[i+1], true
			i += 2
		default:
			return rv(errSyntax())
		}
	}
	if !sc.Sess.Authed {
		return rv(resp.Err("NOAUTH HELLO must be called with the client already authenticated, otherwise the HELLO <proto> AUTH <user> <pass> option can be used to authenticate the client and select the RESP protocol version at the same time"))
	}
	if setname {
		sc.Sess.Name = name
	}
	sc.Sess.Proto = proto
	mode := "standalone"
	if n.ClusterEnabled {
		mode = "cluster"
	}
	if w.Sentinel != nil && w.Sentinel.IsSentinel(n.Addr) {
		mode = "sentinel"
	}
	role := "master"
	if n.Role == "slave" {
		role = "replica"
	}
	m := resp.Map(
		resp.Bulk("server"), resp.Bulk("redis"),
		resp.Bulk("version"), resp.Bulk(n.Version),
		resp.Bulk("proto"), resp.Int(int64(proto)),
		resp.Bulk("id"), resp.Int(int64(sc.ID+1)),
		resp.Bulk("mode"), resp.Bulk(mode),
		resp.Bulk("role"), resp.Bulk(role),
		resp.Bulk("modules"), resp.Arr(),
	)
	if n.AZ != "" {
		m.A = append(m.A, resp.Bulk("availability_zone"), resp.Bulk(n.AZ))
	}
	return rv(m)
}

func (n *Node) auth(sc *SrvConn, user, pass string) resp.Value {
	if len(n.Users) == 0 {
		if user == "default" {
			// Redis: AUTH <password> without any password configured is an error; with user "default" and nopass it succeeds.
			sc.Sess.Authed, sc.Sess.User = true, "default"
			return resp.OK()
		}
		return resp.Err("WRONGPASS invalid username-password pair or user is disabled.")
	}
	if p, ok := n.Users[user]; ok && p == pass {
		sc.Sess.Authed, sc.Sess.User = true, user
		return resp.OK()
	}
	return resp.Err("WRONGPASS invalid username-password pair or user is disabled.")
}

func cmdAuth(w *World, sc *SrvConn, e *Exec, a []string) result {
	switch len(a) {
	case 2:
		if len(sc.Node.Users) == 0 {
			return rv(resp.Err("ERR AUTH <password> called without any password configured for the default user. Are you sure your configuration is correct?"))
		}
		return rv(sc.Node.auth(sc, "default", a[1]))
	case 3:
		return rv(sc.Node.auth(sc, a[1], a[2]))
	}
	return rv(errSyntax())
}

func cmdPing(w *World, sc *SrvConn, e *Exec, a []string) result {
	if sc.Sess.Proto == 2 && sc.subCount() > 0 {
		msg := ""
		if len(a) > 1 {
			msg = a[1]
		}
		return rv(resp.Arr(resp.Bulk("pong"), resp.Bulk(msg)))
	}
	if len(a) > 1 {
		return rv(resp.Bulk(a[1]))
	}
	return rv(resp.Simple("PONG"))
}

func cmdSelect(w *World, sc *SrvConn, e *Exec, a []string) result {
	i, ok := atoi(a[1])
	if !ok || i < 0 || i > 15 {
		return rv(resp.Err("ERR DB index is out of range"))
	}
	if sc.Node.ClusterEnabled && i != 0 {
		return rv(resp.Err("ERR SELECT is not allowed in cluster mode"))
	}
	sc.Sess.DB = int(i)
	return rv(resp.OK())
}

func cmdReadonly(w *World, sc *SrvConn, e *Exec, a []string) result {
	if !sc.Node.ClusterEnabled {
		return rv(resp.Err("ERR This instance has cluster support disabled"))
	}
	sc.Sess.ReadOnly = true
	return rv(resp.OK())
}

func cmdClient(w *World, sc *SrvConn, e *Exec, a []string) result {
	switch up(a[1]) {
	case "SETNAME":
		if len(a) != 3 {
			return rv(errSyntax())
		}
		if strings.ContainsAny(a[2], " \n") {
			return rv(resp.Err("ERR Client names cannot contain spaces, newlines or special characters."))
		}
		sc.Sess.Name = a[2]
		return rv(resp.OK())
	case "GETNAME":
		if sc.Sess.Name == "" {
			return rv(resp.Nil())
		}
		return rv(resp.Bulk(sc.Sess.Name))
	case "ID":
		return rv(resp.Int(int64(sc.ID + 1)))
	case "SETINFO":
		if len(a) != 4 {
			return rv(errSyntax())
		}
		switch up(a[2]) {
		case "LIB-NAME":
			sc.Sess.LibName = a[3]
		case "LIB-VER":
			sc.Sess.LibVer = a[3]
		default:
			return rv(resp.Err("ERR Unrecognized option '" + a[2] + "'"))
		}
		return rv(resp.OK())
	case "NO-TOUCH":
		if len(a) != 3 {
			return rv(errSyntax())
		}
		sc.Sess.NoTouch = up(a[2]) == "ON"
		return rv(resp.OK())
	case "NO-EVICT":
		if len(a) != 3 {
			return rv(errSyntax())
		}
		sc.Sess.NoEvict = up(a[2]) == "ON"
		return rv(resp.OK())
	case "CAPA":
		sc.Sess.Capa = append(sc.Sess.Capa, a[2:]...)
		return rv(resp.OK())
	case "CACHING":
		if len(a) != 3 {
			return rv(errSyntax())
		}
		if !sc.Sess.Tracking || (sc.Sess.TrackMode != "OPTIN" && sc.Sess.TrackMode != "OPTOUT") {
			return rv(resp.Err("ERR CLIENT CACHING can be called only when the client is in tracking mode with OPTIN or OPTOUT mode enabled"))
		}
		switch up(a[2]) {
		case "YES":
			if sc.Sess.TrackMode != "OPTIN" {
				return rv(resp.Err("ERR CLIENT CACHING YES is only valid when tracking is enabled in OPTIN mode."))
			}
			sc.caching = 1
		case "NO":
			if sc.Sess.TrackMode != "OPTOUT" {
				return rv(resp.Err("ERR CLIENT CACHING NO is only valid when tracking is enabled in OPTOUT mode."))
			}
			sc.caching = -1
		default:
			return rv(errSyntax())
		}
		return rv(resp.OK())
	case "TRACKING":
		if len(a) < 3 {
			return rv(errSyntax())
		}
		switch up(a[2]) {
		case "OFF":
			sc.Sess.Tracking = false
			sc.Sess.TrackMode = ""
			sc.Sess.Prefixes = nil
			sc.Sess.NoLoop = false
			sc.Node.DBs.untrackConn(sc)
			return rv(resp.OK())
		case "ON":
		default:
			return rv(errSyntax())
		}
		mode, noloop := "", false
		var prefixes []string
		for i := 3; i < len(a); i++ {
			switch up(a[i]) {
			case "OPTIN", "OPTOUT", "BCAST":
				if mode != "" && mode != up(a[i]) {
					return rv(resp.Err("ERR You can't specify both OPTIN mode and OPTOUT mode"))
				}
				mode = up(a[i])
			case "NOLOOP":
				noloop = true
			case "PREFIX":
				if i+1 >= len(a) {
					return rv(errSyntax())
				}
				prefixes = append(prefixes, a[i+1])
				i++
			case "REDIRECT":
				w.gap("CLIENT TRACKING REDIRECT is not modelled")
				return rv(errSyntax())
			default:
				return rv(errSyntax())
			}
		}
		if sc.Sess.Proto < 3 {
			return rv(resp.Err("ERR Client tracking is only supported in RESP3 unless REDIRECT is used"))
		}
		if len(prefixes) > 0 && mode != "BCAST" {
			return rv(resp.Err("ERR PREFIX option requires BCAST mode to be enabled"))
		}
		for i, p := range prefixes {
			for j, q := range prefixes {
				if i != j && strings.HasPrefix(p, q) {
					return rv(resp.Err(fmt.Sprintf("ERR Prefix '%s' overlaps with an existing prefix '%s'. Prefixes for a single client must not overlap.", p, q)))
				}
			}
		}
		sc.Sess.Tracking = true
		sc.Sess.TrackMode = mode
		sc.Sess.Prefixes = prefixes
		sc.Sess.NoLoop = noloop
		return rv(resp.OK())
	}
	w.gap("CLIENT %s is not modelled", a[1])
	return rv(errSyntax())
}

func cmdInfo(w *World, sc *SrvConn, e *Exec, a []string) result {
	n := sc.Node
	var sb strings.Builder
	sb.WriteString("# Server\r\nredis_version:" + n.Version + "\r\nrun_id:" + n.RunID + "\r\n")
	if n.AZ != "" {
		sb.WriteString("availability_zone:" + n.AZ + "\r\n")
	}
	if w.Sentinel.IsSentinel(n.Addr) {
		sb.WriteString(w.Sentinel.infoText(n.Addr))
		return rv(resp.Bulk(sb.String()))
	}
	sb.WriteString(replInfo(w, n))
	return rv(resp.Bulk(sb.String()))
}

func cmdRole(w *World, sc *SrvConn, e *Exec, a []string) result {
	n := sc.Node
	if w.Sentinel.IsSentinel(n.Addr) {
		return rv(w.Sentinel.roleReply(n.Addr))
	}
	return rv(roleReply(w, n))
}

func splitAddr(a string) (string, int64) {
	i := strings.LastIndex(a, ":")
	if i < 0 {
		return a, 0
	}
	p, _ := strconv.ParseInt(a[i+1:], 10, 64)
	return a[:i], p
}

// ---- VTAG: test command answering with a reply tree derived from a shape string and carrying a uid ----
//
// VTAG <uid> <shape> [pad]
// shape grammar (one character each, nested with brackets):
//   s simple string, b bulk, i integer, n null, t/f booleans, d double, g big number, v verbatim,
//   e error, B blob error, [..] array, {..} map (k,v pairs), <..> set, S streamed bulk, A[..] streamed array,
//   a attribute-prefixed bulk
// Every leaf carries the uid so replies are attributable.

func cmdVTag(w *World, sc *SrvConn, e *Exec, a []string) result {
	uid, shape := a[1], a[2]
	if len(a) > 3 {
		if n, ok := atoi(a[3]); ok && n > 0 {
			uid = PadUID(uid, int(n))
		}
	}
	p := 0
	leaf := 0
	v, ok := buildShape(uid, shape, &p, &leaf, 0)
	if !ok || p != len(shape) {
		w.gap("VTAG: bad shape %q", shape)
		return rv(resp.Err("ERR bad shape"))
	}
	return rv(v)
}

// VKTAG <key> <uid> <shape>: keyed, read-only variant (for cluster routing and caching)
func cmdVKTag(w *World, sc *SrvConn, e *Exec, a []string) result {
	return cmdVTag(w, sc, e, append([]string{"VTAG"}, a[2:]...))
}

// VWTAG <key> <uid>: keyed write; appends uid to the list at key and answers with a bulk carrying the uid.
func cmdVWTag(w *World, sc *SrvConn, e *Exec, a []string) result {
	d := sc.Node.DBs
	en := d.get(sc, a[1])
	if en == nil {
		en = &entry{typ: "list"}
		d.db(sc.Sess.DB)[a[1]] = en
	} else if en.typ != "list" {
		return rv(errWrongType())
	}
	en.list = append(en.list, a[2])
	d.touch(w, sc, a[1])
	return rv(resp.Bulk("w:" + a[2]))
}

// PadUID lengthens a uid deterministically so that leaves become large payloads.
func PadUID(uid string, n int) string {
	b := make([]byte, 0, len(uid)+n+1)
	b = append(b, uid...)
	b = append(b, '~')
	x := uint32(len(uid)*2654435761 + n)
	for i := 0; i < n; i++ {
		x = x*1664525 + 1013904223
		b = append(b, byte(x>>24))
	}
	return string(b)
}

// lineSafe removes CR and LF, which line-terminated RESP types cannot carry.
func lineSafe(s string) string {
	b := []byte(s)
	for i, c := range b {
		if c == '\r' || c == '\n' {
			b[i] = '.'
		}
	}
	return string(b)
}

// BuildShape exposes the shape builder to harness oracles.
func BuildShape(uid, shape string) (resp.Value, bool) {
	p, leaf := 0, 0
	v, ok := buildShape(uid, shape, &p, &leaf, 0)
	return v, ok && p == len(shape)
}

func buildShape(uid, shape string, p *int, leaf *int, depth int) (resp.Value, bool) {
	if *p >= len(shape) || depth > 16 {
		return resp.Value{}, false
	}
	c := shape[*p]
	*p++
	tag := func() string {
		*leaf++
		return uid + "#" + strconv.Itoa(*leaf)
	}
	agg := func(closer byte) ([]resp.Value, bool) {
		var out []resp.Value
		for {
			if *p >= len(shape) {
				return nil, false
			}
			if shape[*p] == closer {
				*p++
				return out, true
			}
			if shape[*p] == 'r' {
				// r<count><element>: the next element repeated count times (wide aggregates)
				*p++
				n := 0
				for *p < len(shape) && shape[*p] >= '0' && shape[*p] <= '9' {
					n = n*10 + int(shape[*p]-'0')
					*p++
				}
				if n <= 0 || n > 400000 {
					return nil, false
				}
				start := *p
				for k := 0; k < n; k++ {
					*p = start
					v, ok := buildShape(uid, shape, p, leaf, depth+1)
					if !ok {
						return nil, false
					}
					out = append(out, v)
				}
				continue
			}
			v, ok := buildShape(uid, shape, p, leaf, depth+1)
			if !ok {
				return nil, false
			}
			out = append(out, v)
		}
	}
	switch c {
	case 's':
		return resp.Simple(lineSafe(tag())), true
	case 'b':
		return resp.Bulk(tag() + "\r\n\x00bin"), true
	case 'I':
		// integers at the edges of int64 (the decoder's overflow guard must accept all of them)
		*leaf++
		ext := []int64{math.MaxInt64, math.MinInt64, math.MaxInt64 - 7, -math.MaxInt64, 9223372036854775800, -9223372036854775800, 1000000000000000000, math.MinInt64 + 8}
		h := 0
		for _, ch := range uid {
			h = h*31 + int(ch)
		}
		if h < 0 {
			h = -h
		}
		return resp.Int(ext[(h+*leaf)%len(ext)]), true
	case 'z':
		return resp.Bulk(""), true // the empty bulk string: "$0\r\n\r\n"
	case 'i':
		*leaf++
		h := int64(0)
		for _, ch := range uid {
			h = h*31 + int64(ch)
		}
		return resp.Int(h*1000 + int64(*leaf)), true
	case 'n':
		return resp.Nil(), true
	case 't':
		return resp.Bool(true), true
	case 'f':
		return resp.Bool(false), true
	case 'd':
		*leaf++
		return resp.Double(strconv.Itoa(len(uid)) + "." + strconv.Itoa(*leaf) + "5"), true
	case 'g':
		return resp.BigNum("1234567890123456789012345678901234567890" + strconv.Itoa(len(uid))), true
	case 'v':
		return resp.Verbatim("txt:" + tag()), true
	case 'e':
		return resp.Err("ERR " + lineSafe(tag())), true
	case 'B':
		return resp.BlobErr("ERR blob " + lineSafe(tag())), true
	case 'S':
		v := resp.Bulk(tag() + "-streamed-string-payload")
		v.Stream = true
		return v, true
	case 'a':
		v := resp.Bulk(tag())
		v.Attr = []resp.Value{resp.Bulk("ttl"), resp.Int(3600)}
		return v, true
	case '[':
		a, ok := agg(']')
		return resp.Value{T: '*', A: a}, ok
	case 'A':
		if *p >= len(shape) || shape[*p] != '[' {
			return resp.Value{}, false
		}
		*p++
		a, ok := agg(']')
		return resp.Value{T: '*', A: a, Stream: true}, ok
	case '<':
		a, ok := agg('>')
		return resp.Value{T: '~', A: a}, ok
	case '{':
		a, ok := agg('}')
		if len(a)%2 != 0 {
			return resp.Value{}, false
		}
		return resp.Value{T: '%', A: a}, ok
	}
	return resp.Value{}, false
}
