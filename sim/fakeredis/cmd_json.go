package fakeredis

// A minimal RedisJSON 2.x: JSON.SET, JSON.GET, JSON.MGET, JSON.MSET, JSON.DEL / JSON.FORGET, JSON.NUMINCRBY.
//
// Supported paths: the root ("$", legacy "." ) and chains of plain member names and integer indexes
// ("$.a.b", "$.a[0]", `$["a"]`, legacy ".a.b", "a.b", "a"). Wildcards, recursive descent, slices and filters are
// flagged as harness gaps. Documents keep the member order of the text they were created from (RedisJSON builds
// serde_json with preserve_order) and are serialized compactly; integers stay integers, other numbers are printed in
// their shortest round-trip form with at least one fractional digit ("1.0").
//
// Reply shapes follow RedisJSON 2: with a "$" path JSON.GET / JSON.MGET / JSON.NUMINCRBY answer with a JSON array of
// the matches ("[]" when nothing matches), with a legacy path with the single value (an error when it is missing;
// JSON.MGET answers null instead). Keys of another type yield WRONGTYPE, and the core commands yield WRONGTYPE on
// JSON keys. TYPE reports "ReJSON-RL".

import (
	"bytes"
	"encoding/json"
	"fmt"
	"io"
	"math"
	"strconv"
	"strings"

	"verifsim/resp"
)

const typJSON = "ReJSON-RL"

func init() {
	reg("JSON.SET", &cmdSpec{arity: -4, first: 1, last: 1, write: true, fn: cmdJSONSet})
	reg("JSON.MSET", &cmdSpec{arity: -4, first: 1, last: -1, step: 3, write: true, fn: cmdJSONMSet})
	reg("JSON.GET", &cmdSpec{arity: -2, first: 1, last: 1, readonly: true, fn: cmdJSONGet})
	reg("JSON.MGET", &cmdSpec{arity: -3, first: 1, last: -2, readonly: true, fn: cmdJSONMGet})
	reg("JSON.DEL", &cmdSpec{arity: -2, first: 1, last: 1, write: true, fn: cmdJSONDel})
	reg("JSON.FORGET", &cmdSpec{arity: -2, first: 1, last: 1, write: true, fn: cmdJSONDel})
	reg("JSON.NUMINCRBY", &cmdSpec{arity: 4, first: 1, last: 1, write: true, fn: cmdJSONNumIncrBy})
}

// ---- document model ----

// A JSON value is one of: nil, bool, jsonNum, string, *jsonArr, *jsonObj.
type jsonNum struct {
	isInt bool
	i     int64
	f     float64
}

type jsonArr struct{ items []any }

type jsonObj struct {
	keys []string // member order
	vals map[string]any
}

func (o *jsonObj) set(k string, v any) {
	if _, ok := o.vals[k]; !ok {
		o.keys = append(o.keys, k)
	}
	o.vals[k] = v
}

func (o *jsonObj) del(k string) {
	delete(o.vals, k)
	for i, x := range o.keys {
		if x == k {
			o.keys = append(o.keys[:i], o.keys[i+1:]...)
			return
		}
	}
}

func parseJSON(text string) (any, error) {
	dec := json.NewDecoder(strings.NewReader(text))
	dec.UseNumber()
	v, err := decodeJSON(dec)
	if err != nil {
		return nil, err
	}
	if _, err := dec.Token(); err != io.EOF {
		return nil, fmt.Errorf("trailing characters")
	}
	return v, nil
}

func decodeJSON(dec *json.Decoder) (any, error) {
	tok, err := dec.Token()
	if err != nil {
		if err == io.EOF {
			err = fmt.Errorf("EOF while parsing a value")
		}
		return nil, err
	}
	switch t := tok.(type) {
	case json.Delim:
		switch t {
		case '[':
			arr := &jsonArr{}
			for dec.More() {
				v, err := decodeJSON(dec)
				if err != nil {
					return nil, err
				}
				arr.items = append(arr.items, v)
			}
			_, err := dec.Token()
			return arr, err
		case '{':
			obj := &jsonObj{vals: map[string]any{}}
			for dec.More() {
				k, err := dec.Token()
				if err != nil {
					return nil, err
				}
				v, err := decodeJSON(dec)
				if err != nil {
					return nil, err
				}
				obj.set(k.(string), v)
			}
			_, err := dec.Token()
			return obj, err
		}
		return nil, fmt.Errorf("unexpected %q", t.String())
	case json.Number:
		return parseJSONNumber(string(t)), nil
	}
	return tok, nil // nil, bool, string
}

func parseJSONNumber(s string) jsonNum {
	if i, err := strconv.ParseInt(s, 10, 64); err == nil {
		return jsonNum{isInt: true, i: i}
	}
	f, _ := strconv.ParseFloat(s, 64)
	return jsonNum{f: f}
}

func (n jsonNum) float() float64 {
	if n.isInt {
		return float64(n.i)
	}
	return n.f
}

// String prints integers as such and other numbers like serde_json (ryu): plain notation with a fractional part
// for 1e-5 <= |x| < 1e16, exponent notation otherwise.
func (n jsonNum) String() string {
	if n.isInt {
		return strconv.FormatInt(n.i, 10)
	}
	if a := math.Abs(n.f); a != 0 && (a < 1e-5 || a >= 1e16) {
		s := strconv.FormatFloat(n.f, 'e', -1, 64)
		mant, exp, _ := strings.Cut(s, "e")
		e, _ := strconv.Atoi(exp)
		return mant + "e" + strconv.Itoa(e)
	}
	s := strconv.FormatFloat(n.f, 'f', -1, 64)
	if !strings.Contains(s, ".") {
		s += ".0"
	}
	return s
}

func writeJSON(sb *bytes.Buffer, v any) {
	switch x := v.(type) {
	case nil:
		sb.WriteString("null")
	case bool:
		sb.WriteString(strconv.FormatBool(x))
	case jsonNum:
		sb.WriteString(x.String())
	case string:
		writeJSONString(sb, x)
	case *jsonArr:
		sb.WriteByte('[')
		for i, e := range x.items {
			if i > 0 {
				sb.WriteByte(',')
			}
			writeJSON(sb, e)
		}
		sb.WriteByte(']')
	case *jsonObj:
		sb.WriteByte('{')
		for i, k := range x.keys {
			if i > 0 {
				sb.WriteByte(',')
			}
			writeJSONString(sb, k)
			sb.WriteByte(':')
			writeJSON(sb, x.vals[k])
		}
		sb.WriteByte('}')
	default:
		panic(fmt.Sprintf("fakeredis: %T is not a JSON value", v))
	}
}

func writeJSONString(sb *bytes.Buffer, s string) {
	enc := json.NewEncoder(sb)
	enc.SetEscapeHTML(false)
	_ = enc.Encode(s)
	sb.Truncate(sb.Len() - 1) // the encoder appends a newline
}

func jsonText(v any) string {
	var sb bytes.Buffer
	writeJSON(&sb, v)
	return sb.String()
}

func jsonTextOfAll(vs []any) string { return jsonText(&jsonArr{items: vs}) }

// ---- paths ----

type jsonSeg struct {
	name  string
	index int
	isIdx bool
}

type jsonPath struct {
	raw    string
	legacy bool
	segs   []jsonSeg
}

func isNameByte(c byte, first bool) bool {
	return c == '_' || c == '-' && !first || c >= 'a' && c <= 'z' || c >= 'A' && c <= 'Z' || c >= '0' && c <= '9' && !first || c >= 0x80
}

// parseJSONPath understands the supported subset; ok=false means the path uses something else.
func parseJSONPath(raw string) (p jsonPath, ok bool) {
	p.raw = raw
	s := raw
	switch {
	case s == "$" || strings.HasPrefix(s, "$.") || strings.HasPrefix(s, "$["):
		s = s[1:]
	case s == ".":
		p.legacy, s = true, ""
	default:
		p.legacy = true
		if s != "" && s[0] != '.' && s[0] != '[' {
			s = "." + s
		}
	}
	for s != "" {
		switch s[0] {
		case '.':
			j := 1
			for j < len(s) && isNameByte(s[j], j == 1) {
				j++
			}
			if j == 1 {
				return p, false
			}
			p.segs = append(p.segs, jsonSeg{name: s[1:j]})
			s = s[j:]
		case '[':
			end := strings.IndexByte(s, ']')
			if end < 0 {
				return p, false
			}
			in := s[1:end]
			if n := len(in); n >= 2 && (in[0] == '"' || in[0] == '\'') && in[n-1] == in[0] && !strings.ContainsAny(in[1:n-1], `"'\`) {
				p.segs = append(p.segs, jsonSeg{name: in[1 : n-1]})
			} else if i, err := strconv.Atoi(in); err == nil {
				p.segs = append(p.segs, jsonSeg{index: i, isIdx: true})
			} else {
				return p, false
			}
			s = s[end+1:]
		default:
			return p, false
		}
	}
	return p, true
}

func (p jsonPath) isRoot() bool { return len(p.segs) == 0 }

// display is how RedisJSON names a path in error messages (legacy paths are shown in their JSONPath form).
func (p jsonPath) display() string {
	if !p.legacy {
		return p.raw
	}
	s := "$"
	for _, g := range p.segs {
		if g.isIdx {
			s += "[" + strconv.Itoa(g.index) + "]"
		} else {
			s += "." + g.name
		}
	}
	return s
}

func jsonStep(v any, g jsonSeg) (any, bool) {
	switch x := v.(type) {
	case *jsonObj:
		if !g.isIdx {
			c, ok := x.vals[g.name]
			return c, ok
		}
	case *jsonArr:
		if g.isIdx {
			if i := normIndex(g.index, len(x.items)); i >= 0 {
				return x.items[i], true
			}
		}
	}
	return nil, false
}

func normIndex(i, n int) int {
	if i < 0 {
		i += n
	}
	if i < 0 || i >= n {
		return -1
	}
	return i
}

func jsonLookup(root any, segs []jsonSeg) (any, bool) {
	v := root
	for _, g := range segs {
		var ok bool
		if v, ok = jsonStep(v, g); !ok {
			return nil, false
		}
	}
	return v, true
}

// jsonAssign stores v at the last segment below parent; done=false when the place cannot hold it.
func jsonAssign(parent any, g jsonSeg, v any) bool {
	switch x := parent.(type) {
	case *jsonObj:
		if !g.isIdx {
			x.set(g.name, v)
			return true
		}
	case *jsonArr:
		if g.isIdx {
			if i := normIndex(g.index, len(x.items)); i >= 0 {
				x.items[i] = v
				return true
			}
		}
	}
	return false
}

func jsonRemove(parent any, g jsonSeg) bool {
	switch x := parent.(type) {
	case *jsonObj:
		if _, ok := x.vals[g.name]; ok && !g.isIdx {
			x.del(g.name)
			return true
		}
	case *jsonArr:
		if g.isIdx {
			if i := normIndex(g.index, len(x.items)); i >= 0 {
				x.items = append(x.items[:i], x.items[i+1:]...)
				return true
			}
		}
	}
	return false
}

// ---- commands ----

func errJSONPath(w *World, cmd, raw string) resp.Value {
	w.gap("%s: JSON path %q is outside the modelled subset", cmd, raw)
	return resp.Err("ERR harness gap: unsupported JSON path " + strconv.Quote(raw))
}

func errJSONNoPath(p jsonPath) resp.Value {
	return resp.Err("ERR Path '" + p.display() + "' does not exist")
}

// jsonEntry fetches the document at key: (nil, nil) when the key is missing.
func jsonEntry(sc *SrvConn, key string) (*entry, *resp.Value) {
	en := sc.Node.DBs.get(sc, key)
	if en != nil && en.typ != typJSON {
		v := errWrongType()
		return nil, &v
	}
	return en, nil
}

// jsonSetOne performs one JSON.SET on an already parsed value. It does not signal the modification.
func jsonSetOne(sc *SrvConn, key string, p jsonPath, val any, nx, xx bool) (reply resp.Value, modified bool) {
	en, errv := jsonEntry(sc, key)
	if errv != nil {
		return *errv, false
	}
	if en == nil {
		if !p.isRoot() {
			return resp.Err("ERR new objects must be created at the root"), false
		}
		if xx {
			return resp.Nil(), false
		}
		sc.Node.DBs.db(sc.Sess.DB)[key] = &entry{typ: typJSON, json: val}
		return resp.OK(), true
	}
	if p.isRoot() {
		if nx {
			return resp.Nil(), false
		}
		en.json = val // in place: the expiry of the key is kept
		return resp.OK(), true
	}
	last := p.segs[len(p.segs)-1]
	parent, found := jsonLookup(en.json, p.segs[:len(p.segs)-1])
	_, exists := jsonLookup(en.json, p.segs)
	if found && ((exists && nx) || (!exists && xx)) {
		return resp.Nil(), false
	}
	if !found || !jsonAssign(parent, last, val) {
		if p.legacy {
			return errJSONNoPath(p), false
		}
		return resp.Nil(), false
	}
	return resp.OK(), true
}

func cmdJSONSet(w *World, sc *SrvConn, e *Exec, a []string) result {
	nx, xx := false, false
	for _, o := range a[4:] {
		switch up(o) {
		case "NX":
			nx = true
		case "XX":
			xx = true
		default:
			if up(o) == "FORMAT" {
				w.gap("JSON.SET FORMAT is not modelled")
			}
			return rv(errSyntax())
		}
	}
	if nx && xx {
		return rv(errSyntax())
	}
	p, ok := parseJSONPath(a[2])
	if !ok {
		return rv(errJSONPath(w, "JSON.SET", a[2]))
	}
	val, err := parseJSON(a[3])
	if err != nil {
		return rv(resp.Err("ERR " + oneLine(err.Error())))
	}
	reply, modified := jsonSetOne(sc, a[1], p, val, nx, xx)
	if modified {
		sc.Node.DBs.touch(w, sc, a[1])
	}
	return rv(reply)
}

func cmdJSONMSet(w *World, sc *SrvConn, e *Exec, a []string) result {
	if (len(a)-1)%3 != 0 {
		return rv(resp.Err("ERR wrong number of arguments for 'JSON.MSET' command"))
	}
	type triplet struct {
		key string
		p   jsonPath
		val any
	}
	var ts []triplet
	for i := 1; i < len(a); i += 3 {
		p, ok := parseJSONPath(a[i+1])
		if !ok {
			return rv(errJSONPath(w, "JSON.MSET", a[i+1]))
		}
		val, err := parseJSON(a[i+2])
		if err != nil {
			return rv(resp.Err("ERR " + oneLine(err.Error())))
		}
		if en, errv := jsonEntry(sc, a[i]); errv != nil {
			return rv(*errv)
		} else if en == nil && !p.isRoot() {
			return rv(resp.Err("ERR new objects must be created at the root"))
		}
		ts = append(ts, triplet{a[i], p, val})
	}
	for _, t := range ts {
		if _, modified := jsonSetOne(sc, t.key, t.p, t.val, false, false); modified {
			sc.Node.DBs.touch(w, sc, t.key)
		}
	}
	return rv(resp.OK())
}

func cmdJSONGet(w *World, sc *SrvConn, e *Exec, a []string) result {
	var paths []jsonPath
	for i := 2; i < len(a); i++ {
		switch up(a[i]) {
		case "INDENT", "NEWLINE", "SPACE", "FORMAT":
			w.gap("JSON.GET %s is not modelled", up(a[i]))
			return rv(errSyntax())
		}
		p, ok := parseJSONPath(a[i])
		if !ok {
			return rv(errJSONPath(w, "JSON.GET", a[i]))
		}
		paths = append(paths, p)
	}
	en, errv := jsonEntry(sc, a[1])
	if errv != nil {
		return rv(*errv)
	}
	if en == nil {
		return rv(resp.Nil())
	}
	if len(paths) == 0 {
		paths = []jsonPath{{raw: ".", legacy: true}}
	}
	legacy := true
	for _, p := range paths {
		legacy = legacy && p.legacy
	}
	var sb bytes.Buffer
	for i, p := range paths {
		v, found := jsonLookup(en.json, p.segs)
		if legacy && !found {
			return rv(errJSONNoPath(p))
		}
		if len(paths) > 1 {
			sb.WriteString(map[bool]string{true: "{", false: ","}[i == 0])
			writeJSONString(&sb, p.raw)
			sb.WriteByte(':')
		}
		switch {
		case legacy:
			writeJSON(&sb, v)
		case found:
			writeJSON(&sb, &jsonArr{items: []any{v}})
		default:
			sb.WriteString("[]")
		}
	}
	if len(paths) > 1 {
		sb.WriteByte('}')
	}
	return rv(w.tagRead(sc, a, a[1], sb.String()))
}

func cmdJSONMGet(w *World, sc *SrvConn, e *Exec, a []string) result {
	raw := a[len(a)-1]
	p, ok := parseJSONPath(raw)
	if !ok {
		return rv(errJSONPath(w, "JSON.MGET", raw))
	}
	out := resp.Arr()
	for _, k := range a[1 : len(a)-1] {
		en := sc.Node.DBs.get(sc, k)
		if en == nil || en.typ != typJSON {
			out.A = append(out.A, resp.Nil())
			continue
		}
		v, found := jsonLookup(en.json, p.segs)
		tag := []string{"JSON.MGET", k, raw}
		switch {
		case p.legacy && !found:
			out.A = append(out.A, resp.Nil())
		case p.legacy:
			out.A = append(out.A, w.tagRead(sc, tag, k, jsonText(v)))
		case found:
			out.A = append(out.A, w.tagRead(sc, tag, k, jsonTextOfAll([]any{v})))
		default:
			out.A = append(out.A, w.tagRead(sc, tag, k, "[]"))
		}
	}
	return rv(out)
}

func cmdJSONDel(w *World, sc *SrvConn, e *Exec, a []string) result {
	if len(a) > 3 {
		return rv(resp.Err(fmt.Sprintf("ERR wrong number of arguments for '%s' command", a[0])))
	}
	p := jsonPath{raw: ".", legacy: true}
	if len(a) == 3 {
		var ok bool
		if p, ok = parseJSONPath(a[2]); !ok {
			return rv(errJSONPath(w, "JSON.DEL", a[2]))
		}
	}
	en, errv := jsonEntry(sc, a[1])
	if errv != nil {
		return rv(*errv)
	}
	if en == nil {
		return rv(resp.Int(0))
	}
	if p.isRoot() {
		sc.Node.DBs.del(w, sc, a[1])
		return rv(resp.Int(1))
	}
	parent, found := jsonLookup(en.json, p.segs[:len(p.segs)-1])
	if !found || !jsonRemove(parent, p.segs[len(p.segs)-1]) {
		return rv(resp.Int(0))
	}
	sc.Node.DBs.touch(w, sc, a[1])
	return rv(resp.Int(1))
}

func jsonTypeName(v any) string {
	switch x := v.(type) {
	case nil:
		return "null"
	case bool:
		return "boolean"
	case jsonNum:
		if x.isInt {
			return "integer"
		}
		return "number"
	case string:
		return "string"
	case *jsonArr:
		return "array"
	}
	return "object"
}

func jsonAdd(x, y jsonNum) jsonNum {
	if x.isInt && y.isInt {
		if s := x.i + y.i; (s > x.i) == (y.i > 0) {
			return jsonNum{isInt: true, i: s}
		}
	}
	return jsonNum{f: x.float() + y.float()}
}

func cmdJSONNumIncrBy(w *World, sc *SrvConn, e *Exec, a []string) result {
	if sc.Sess.Proto >= 3 && !sc.inScript() {
		w.gap("JSON.NUMINCRBY on a RESP3 connection: the RESP3 reply shape of RedisJSON 2.6 is not modelled")
	}
	p, ok := parseJSONPath(a[2])
	if !ok {
		return rv(errJSONPath(w, "JSON.NUMINCRBY", a[2]))
	}
	incv, err := parseJSON(a[3])
	inc, isNum := incv.(jsonNum)
	if err != nil || !isNum {
		return rv(resp.Err("ERR expected value at line 1 column 1"))
	}
	en, errv := jsonEntry(sc, a[1])
	if errv != nil {
		return rv(*errv)
	}
	if en == nil {
		return rv(resp.Err("ERR could not perform this operation on a key that doesn't exist"))
	}
	cur, found := jsonLookup(en.json, p.segs)
	num, isNum := cur.(jsonNum)
	if !found || !isNum {
		switch {
		case !p.legacy && !found:
			return rv(resp.Bulk("[]"))
		case !p.legacy:
			return rv(resp.Bulk("[null]"))
		case !found:
			return rv(errJSONNoPath(p))
		}
		return rv(resp.Err("ERR wrong type of path value - expected a number but found " + jsonTypeName(cur)))
	}
	sum := jsonAdd(num, inc)
	if math.IsInf(sum.float(), 0) || math.IsNaN(sum.float()) {
		return rv(resp.Err("ERR result is not a number"))
	}
	if p.isRoot() {
		en.json = sum
	} else {
		parent, _ := jsonLookup(en.json, p.segs[:len(p.segs)-1])
		jsonAssign(parent, p.segs[len(p.segs)-1], sum)
	}
	sc.Node.DBs.touch(w, sc, a[1])
	if p.legacy {
		return rv(resp.Bulk(sum.String()))
	}
	return rv(resp.Bulk("[" + sum.String() + "]"))
}
