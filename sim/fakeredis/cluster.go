package fakeredis

// Redis Cluster model (Redis 7.2 behaviour as seen by a client).
//
// The model keeps ONE authoritative ("live") topology plus, optionally, frozen
// per-node copies of it ("views"). Every routing decision and every topology
// answer (CLUSTER SLOTS / SHARDS / NODES / INFO) a node gives is computed from
// that node's view, so that stale nodes keep redirecting to and advertising a
// topology that is no longer true until the harness syncs them.
//
// Data: every shard (a master and its replicas) shares one Dataset (instant
// replication). Moving a slot moves the keys of that slot (db 0 only, cluster
// mode has a single database) from the source shard's Dataset to the target's.
//
// Client side caching: a key that migrates is DELETED on the source (Dataset.touch: the
// connections that tracked it there get an invalidate push, WATCHers see it modified,
// Dataset.Mods records it with Conn -1) and RESTOREd on the target (also a touch: whoever
// tracked the still missing key on the target, e.g. after an ASKING read, is invalidated).
// Tracking entries for keys that did not exist on the source stay where they are and are
// never invalidated by the migration, exactly like in Redis.
//
// Participants rule: a node that takes part in a change (source/target of a slot move, old
// and new master of a failover) always learns it, even when frozen; only bystanders can be
// stale. This keeps a node from serving a slot whose data the model already moved away.
// Arbitrary disagreement can still be built with SetViewSlotOwner.
//
// Everything is deterministic: outputs are ordered by node join order or by
// slot number, there is no randomness and no wall clock.

import (
	"fmt"
	"sort"
	"strconv"
	"strings"

	"verifsim/resp"
)

// NumSlots is the number of hash slots of a Redis Cluster.
const NumSlots = 16384

// EndpointEmpty and EndpointNull are special values of ClusterNodeOpts.EndpointOverride.
const (
	// EndpointEmpty: the node is listed with an empty-string endpoint ("" in SLOTS and SHARDS).
	EndpointEmpty = "\x00empty"
	// EndpointNull: the node is listed with a NULL endpoint in CLUSTER SLOTS (and "" in
	// CLUSTER SHARDS and redirects, which is what Redis does for unknown-endpoint).
	EndpointNull = "\x00null"
)

// ClusterNodeOpts are the per-node presentation knobs of the cluster model. The zero
// value means "a node that announces the host and port of its address, prefers
// ip endpoints and is healthy". Obtain with Cluster.NodeOpts(addr) and mutate in place.
type ClusterNodeOpts struct {
	// AnnounceIP replaces the host part of the node's address in the "ip" field /
	// ip endpoint of every topology answer and in redirects (cluster-announce-ip).
	AnnounceIP string
	// UnknownIP makes the node's ip the empty string, as for a node that has not yet
	// learnt its own address (the classic reason for the client's defaultAddr fallback).
	UnknownIP bool
	// Hostname is the cluster-announce-hostname of the node ("" = none).
	Hostname string
	// Port overrides the announced TCP port (0 = the port of the node's address).
	Port int
	// TLSPort is the announced TLS port (0 = none). CLUSTER SHARDS lists it as "tls-port";
	// CLUSTER SLOTS and redirects use it instead of the TCP port when Cluster.TLSClients is set.
	TLSPort int
	// NoTCPPort omits "port" from CLUSTER SHARDS (a TLS-only cluster: tcp port 0). Requires TLSPort.
	NoTCPPort bool
	// Health overrides the computed "health" of the node in CLUSTER SHARDS with an
	// arbitrary string. Computed values are the ones Redis 7.2 emits: "online",
	// "fail" (node flagged as failed) and "loading" (replica with replication offset 0).
	// A replica whose effective health is not "online" is omitted from CLUSTER SLOTS, as in Redis 7.
	Health string
	// EndpointOverride forces how THIS node is listed (as endpoint) by every node:
	// EndpointEmpty, EndpointNull, "?" or any literal string. "" = computed from the
	// answering node's preferred endpoint type.
	EndpointOverride string
	// PreferredEndpoint is the cluster-preferred-endpoint-type of this node when IT answers
	// (and redirects): "ip" (default, also ""), "hostname" (nodes without hostname are listed
	// as "?") or "unknown-endpoint" (NULL in SLOTS, "" in SHARDS and redirects).
	// "" falls back to Cluster.PreferredEndpoint.
	PreferredEndpoint string
	// RawSlots / RawShards, when non-nil, are sent verbatim as this node's answer to
	// CLUSTER SLOTS / CLUSTER SHARDS (for malformed-topology tests).
	RawSlots  *resp.Value
	RawShards *resp.Value
}

type viewNode struct {
	addr   string
	shard  int    // shard ordinal, stable across failovers
	master string // "" for masters, else the address of the master
	failed bool   // flagged FAIL
}

// clusterView is one node's idea of the cluster.
type clusterView struct {
	epoch int
	order []string // join order
	nodes map[string]*viewNode
	slots [NumSlots]string // owning master, "" = unassigned
}

func (v *clusterView) clone() *clusterView {
	c := &clusterView{epoch: v.epoch, order: append([]string(nil), v.order...), nodes: map[string]*viewNode{}, slots: v.slots}
	for a, n := range v.nodes {
		cp := *n
		c.nodes[a] = &cp
	}
	return c
}

// masterOf returns the master of addr's shard in this view (addr itself for masters, "" if unknown).
func (v *clusterView) masterOf(addr string) string {
	n := v.nodes[addr]
	if n == nil {
		return ""
	}
	if n.master == "" {
		return addr
	}
	return n.master
}

func (v *clusterView) replicasOf(master string) []string {
	var out []string
	for _, a := range v.order {
		if v.nodes[a].master == master {
			out = append(out, a)
		}
	}
	return out
}

// shards returns the shard ordinals in ascending order with their members in join order.
func (v *clusterView) shards() (ids []int, members map[int][]string) {
	members = map[int][]string{}
	for _, a := range v.order {
		s := v.nodes[a].shard
		if _, ok := members[s]; !ok {
			ids = append(ids, s)
		}
		members[s] = append(members[s], a)
	}
	sort.Ints(ids)
	return ids, members
}

// ranges returns the contiguous slot ranges owned by master in ascending order.
func (v *clusterView) ranges(master string) [][2]int {
	var out [][2]int
	start := -1
	for s := 0; s <= NumSlots; s++ {
		mine := s < NumSlots && v.slots[s] == master
		if mine && start < 0 {
			start = s
		}
		if !mine && start >= 0 {
			out = append(out, [2]int{start, s - 1})
			start = -1
		}
	}
	return out
}

type migration struct{ from, to string }

// Cluster is the Redis Cluster model of a World. Create it with NewCluster.
type Cluster struct {
	w      *World
	live   *clusterView
	frozen map[string]*clusterView
	migr   map[int]*migration
	opts   map[string]*ClusterNodeOpts
	shards int

	downAll  bool
	downNode map[string]bool

	// RequireFullCoverage models cluster-require-full-coverage. NOTE: the Redis default is
	// "yes"; the model default is false (= "no") so that partially covered test clusters keep
	// serving the slots they have. When true, a node whose view has an unassigned slot or a
	// slot owned by a failed master reports cluster_state:fail and answers every keyed
	// command with CLUSTERDOWN.
	RequireFullCoverage bool
	// AllowReadsWhenDown models cluster-allow-reads-when-down (Redis default: no).
	AllowReadsWhenDown bool
	// BlockPubSubShardWhenDown is the negation of cluster-allow-pubsubshard-when-down
	// (Redis default: allowed, i.e. false here).
	BlockPubSubShardWhenDown bool
	// TLSClients tells the model that clients connect with TLS: CLUSTER SLOTS and
	// MOVED/ASK then report a node's TLSPort (when it has one) instead of its TCP port.
	TLSClients bool
	// PreferredEndpoint is the cluster-wide default of ClusterNodeOpts.PreferredEndpoint.
	PreferredEndpoint string
	// KeepShardSubsOnFailover: Redis 7.2 drops (sunsubscribe) the shard-channel
	// subscriptions of a shard's nodes when the slots change owner during a failover
	// (clusterDelSlot -> removeChannelsInSlot). Set to true to keep them instead.
	KeepShardSubsOnFailover bool

	// Redirects counts the redirections and cluster errors produced so far, keyed by
	// "MOVED", "ASK", "TRYAGAIN", "CROSSSLOT", "CLUSTERDOWN".
	Redirects map[string]int
}

// NewCluster creates an empty cluster model and installs it as w.Cluster.
func NewCluster(w *World) *Cluster {
	c := &Cluster{
		w:         w,
		live:      &clusterView{nodes: map[string]*viewNode{}},
		frozen:    map[string]*clusterView{},
		migr:      map[int]*migration{},
		opts:      map[string]*ClusterNodeOpts{},
		downNode:  map[string]bool{},
		Redirects: map[string]int{},
	}
	w.Cluster = c
	return c
}

// ---------------------------------------------------------------------------
// slot function

func crc16(s string) uint16 {
	var crc uint16
	for i := 0; i < len(s); i++ {
		crc ^= uint16(s[i]) << 8
		for b := 0; b < 8; b++ {
			if crc&0x8000 != 0 {
				crc = crc<<1 ^ 0x1021
			} else {
				crc <<= 1
			}
		}
	}
	return crc
}

// KeySlot returns the hash slot of a key: CRC16-XMODEM of the key, or of its hash tag
// (the text between the first '{' and the first '}' after it, when not empty), modulo 16384.
func KeySlot(key string) int {
	if i := strings.IndexByte(key, '{'); i >= 0 {
		if j := strings.IndexByte(key[i+1:], '}'); j > 0 {
			key = key[i+1 : i+1+j]
		}
	}
	return int(crc16(key) & (NumSlots - 1))
}

// SlotOf is KeySlot as a method, for harness convenience.
func (c *Cluster) SlotOf(key string) int { return KeySlot(key) }

// ---------------------------------------------------------------------------
// topology construction

func (c *Cluster) node(addr string) *Node {
	n := c.w.Nodes[addr]
	if n == nil {
		panic("fakeredis: cluster: unknown node " + addr)
	}
	return n
}

// mutate applies fn to the live topology and to the frozen views of the participants
// (nodes that take part in the change always learn about it; bystanders only when synced).
func (c *Cluster) mutate(participants []string, fn func(v *clusterView)) {
	fn(c.live)
	c.live.epoch++
	seen := map[string]bool{}
	for _, p := range participants {
		if v := c.frozen[p]; v != nil && !seen[p] {
			seen[p] = true
			fn(v)
			v.epoch++
		}
	}
	c.syncNodes()
}

// syncNodes copies roles of the live topology into the World's nodes (Role, MasterOf, shared Dataset).
func (c *Cluster) syncNodes() {
	for _, a := range c.live.order {
		n, vn := c.w.Nodes[a], c.live.nodes[a]
		if vn.master == "" {
			n.Role, n.MasterOf = "master", ""
			continue
		}
		m := c.w.Nodes[vn.master]
		n.Role, n.MasterOf = "slave", vn.master
		if n.DBs != m.DBs {
			rebindDataset(c.w, n, m)
		}
	}
}

// AddShard adds a shard: master (created with World.AddNode when it does not exist yet)
// plus replicas (created with World.AddReplica when they do not exist), owning the given
// inclusive slot ranges. All nodes get ClusterEnabled. It panics when a slot is already
// assigned. Frozen nodes do not learn about the new shard until synced. Returns the master node.
func (c *Cluster) AddShard(master string, replicas []string, ranges ...[2]int) *Node {
	w := c.w
	m := w.Nodes[master]
	if m == nil {
		m = w.AddNode(master)
	}
	if c.live.nodes[master] != nil {
		panic("fakeredis: cluster: node already in the cluster: " + master)
	}
	m.ClusterEnabled = true
	m.Role, m.MasterOf = "master", ""
	for _, r := range ranges {
		if r[0] < 0 || r[1] >= NumSlots || r[0] > r[1] {
			panic(fmt.Sprintf("fakeredis: cluster: bad slot range %v", r))
		}
		for s := r[0]; s <= r[1]; s++ {
			if c.live.slots[s] != "" {
				panic(fmt.Sprintf("fakeredis: cluster: slot %d already owned by %s", s, c.live.slots[s]))
			}
		}
	}
	shard := c.shards
	c.shards++
	c.mutate(nil, func(v *clusterView) {
		v.order = append(v.order, master)
		v.nodes[master] = &viewNode{addr: master, shard: shard}
		for _, r := range ranges {
			for s := r[0]; s <= r[1]; s++ {
				v.slots[s] = master
			}
		}
	})
	for _, r := range replicas {
		c.AddReplicaTo(master, r)
	}
	return m
}

// AddReplicaTo adds a replica (created with World.AddReplica when needed) to the shard of master.
func (c *Cluster) AddReplicaTo(master, replica string) *Node {
	vm := c.live.nodes[master]
	if vm == nil || vm.master != "" {
		panic("fakeredis: cluster: AddReplicaTo: not a master of the cluster: " + master)
	}
	if c.live.nodes[replica] != nil {
		panic("fakeredis: cluster: node already in the cluster: " + replica)
	}
	n := c.w.Nodes[replica]
	if n == nil {
		n = c.w.AddReplica(replica, master)
	}
	n.ClusterEnabled = true
	c.mutate(nil, func(v *clusterView) {
		v.order = append(v.order, replica)
		v.nodes[replica] = &viewNode{addr: replica, shard: vm.shard, master: master}
	})
	return n
}

// Forget removes a node from the live topology (CLUSTER FORGET on every node). Slots it
// owned become unassigned, its replicas are forgotten too. The node stays in the World.
func (c *Cluster) Forget(addr string) {
	if c.live.nodes[addr] == nil {
		return
	}
	gone := map[string]bool{addr: true}
	for _, r := range c.live.replicasOf(addr) {
		gone[r] = true
	}
	for s, o := range c.live.slots {
		if o == addr {
			c.loseSlot(s, "")
		}
	}
	c.mutate(nil, func(v *clusterView) {
		var order []string
		for _, a := range v.order {
			if gone[a] {
				delete(v.nodes, a)
			} else {
				order = append(order, a)
			}
		}
		v.order = order
		for s, o := range v.slots {
			if gone[o] {
				v.slots[s] = ""
			}
		}
	})
}

// NodeOpts returns the mutable presentation options of a node (see ClusterNodeOpts).
func (c *Cluster) NodeOpts(addr string) *ClusterNodeOpts {
	o := c.opts[addr]
	if o == nil {
		o = &ClusterNodeOpts{}
		c.opts[addr] = o
	}
	return o
}

// Owner returns the node that owns slot in the live topology (nil when unassigned).
func (c *Cluster) Owner(slot int) *Node {
	if a := c.live.slots[slot]; a != "" {
		return c.w.Nodes[a]
	}
	return nil
}

// OwnerSeenBy returns the address that node addr believes owns slot ("" = unassigned).
func (c *Cluster) OwnerSeenBy(addr string, slot int) string { return c.view(addr).slots[slot] }

// Masters returns the master addresses of the live topology in join order.
func (c *Cluster) Masters() []string {
	var out []string
	for _, a := range c.live.order {
		if c.live.nodes[a].master == "" {
			out = append(out, a)
		}
	}
	return out
}

// Replicas returns the replica addresses of master in the live topology in join order.
func (c *Cluster) Replicas(master string) []string { return c.live.replicasOf(master) }

// Members returns every node address of the live topology in join order.
func (c *Cluster) Members() []string { return append([]string(nil), c.live.order...) }

// Ranges returns the slot ranges owned by master in the live topology.
func (c *Cluster) Ranges(master string) [][2]int { return c.live.ranges(master) }

// Epoch returns the epoch of the live topology; it grows by one on every topology change.
func (c *Cluster) Epoch() int { return c.live.epoch }

// ViewEpoch returns the epoch of the topology node addr currently believes in.
func (c *Cluster) ViewEpoch(addr string) int { return c.view(addr).epoch }

// SetSlotOwner assigns slot to master addr ("" = unassign) WITHOUT moving any key (like
// CLUSTER ADDSLOTS / DELSLOTS / SETSLOT NODE on every node). Keys of the slot stay in the
// old owner's dataset, where they become unreachable. Shard-channel subscribers of the old
// owner's shard get sunsubscribe pushes and clients blocked on keys of the slot get MOVED
// (or CLUSTERDOWN when unassigned), as in Redis. Old and new owner always learn the change,
// other frozen nodes do not. Use MoveSlot to move the data too.
func (c *Cluster) SetSlotOwner(slot int, addr string) {
	if addr != "" {
		if vn := c.live.nodes[addr]; vn == nil || vn.master != "" {
			panic("fakeredis: cluster: SetSlotOwner: not a master of the cluster: " + addr)
		}
	}
	c.loseSlot(slot, addr)
}

// loseSlot flips the ownership of slot to `to` and notifies the previous owner's shard.
func (c *Cluster) loseSlot(slot int, to string) {
	old := c.live.slots[slot]
	if old == to {
		return
	}
	var oldShard []string
	if old != "" {
		oldShard = append([]string{old}, c.live.replicasOf(old)...)
	}
	c.mutate([]string{old, to}, func(v *clusterView) { v.slots[slot] = to })
	delete(c.migr, slot)
	c.dropShardChannels(oldShard, func(s int) bool { return s == slot })
	c.redirectBlocked(oldShard, func(s int) bool { return s == slot })
}

// dropShardChannels unsubscribes (with sunsubscribe pushes) the shard channels whose slot matches.
func (c *Cluster) dropShardChannels(nodes []string, match func(slot int) bool) {
	for _, a := range nodes {
		n := c.w.Nodes[a]
		if n == nil {
			continue
		}
		for _, sc := range append([]*SrvConn(nil), n.Conns...) {
			for _, ch := range sortedKeys(sc.ssubs) {
				if match(KeySlot(ch)) {
					delete(sc.ssubs, ch)
					sc.push("sunsubscribe", resp.Push(resp.Bulk("sunsubscribe"), resp.Bulk(ch), resp.Int(int64(len(sc.ssubs)))))
				}
			}
		}
	}
}

// redirectBlocked answers clients blocked on a key of a slot the node no longer serves.
func (c *Cluster) redirectBlocked(nodes []string, match func(slot int) bool) {
	for _, a := range nodes {
		n := c.w.Nodes[a]
		if n == nil {
			continue
		}
		for _, sc := range append([]*SrvConn(nil), n.Conns...) {
			b := sc.blocked
			if b == nil {
				continue
			}
			spec := specs[up(b.argv[0])]
			if spec == nil {
				continue
			}
			keys := spec.keys(b.argv)
			if len(keys) == 0 || !match(KeySlot(keys[0])) {
				continue
			}
			slot := KeySlot(keys[0])
			v := c.view(a)
			var reply resp.Value
			if owner := v.slots[slot]; owner == "" {
				reply = c.count(resp.Err("CLUSTERDOWN Hash slot not served"))
			} else if owner == v.masterOf(a) {
				continue
			} else {
				reply = c.count(resp.Err(fmt.Sprintf("MOVED %d %s", slot, c.redirectAddr(a, owner))))
			}
			sc.blocked = nil
			b.exec.Reply = reply
			sc.appendReply(b.exec, reply)
			c.w.Feed(sc, nil)
		}
	}
}

// ---------------------------------------------------------------------------
// views

func (c *Cluster) view(addr string) *clusterView {
	if v := c.frozen[addr]; v != nil && v.nodes[addr] != nil {
		return v
	}
	return c.live
}

// FreezeView makes node addr stop learning about topology changes it does not take part
// in: from now on it routes (MOVED/ASK targets, "is this slot mine") and answers CLUSTER
// SLOTS / SHARDS / NODES / INFO from a private copy of the current topology. Changes in
// which the node itself participates (it is the source or target of a slot move, or the
// old or new master of a failover) are still applied to its copy, as they would be in a
// real cluster. Freezing an already frozen node re-snapshots the live topology.
func (c *Cluster) FreezeView(addr string) {
	c.node(addr)
	c.frozen[addr] = c.live.clone()
}

// SetViewSlotOwner edits only what node addr believes about slot (freezing addr first when
// it is not frozen): afterwards addr redirects clients for that slot to owner and lists the
// slot under owner in CLUSTER SLOTS/SHARDS ("" = unassigned). Use it to build disagreeing
// nodes and redirect loops (A says B owns, B says A owns). Do not make a node believe that
// it (or its master) owns a slot whose data lives elsewhere: the model cannot serve that
// faithfully and records a gap when such a node executes a command for the slot.
func (c *Cluster) SetViewSlotOwner(addr string, slot int, owner string) {
	if c.frozen[addr] == nil {
		c.FreezeView(addr)
	}
	v := c.frozen[addr]
	v.slots[slot] = owner
	v.epoch++
}

// SyncView makes node addr adopt the live topology again (and keep following it).
func (c *Cluster) SyncView(addr string) { delete(c.frozen, addr) }

// SyncAll syncs every frozen node.
func (c *Cluster) SyncAll() { c.frozen = map[string]*clusterView{} }

// IsFrozen reports whether node addr currently has a private (possibly stale) view.
func (c *Cluster) IsFrozen(addr string) bool { return c.frozen[addr] != nil }

// ---------------------------------------------------------------------------
// health and cluster state

// SetNodeFailed sets or clears the FAIL flag the (non-frozen) cluster members have about
// node addr: health "fail" in CLUSTER SHARDS, "fail" flag in CLUSTER NODES, omitted from
// CLUSTER SLOTS when it is a replica. It does not touch Node.Down.
func (c *Cluster) SetNodeFailed(addr string, failed bool) {
	c.node(addr)
	c.mutate(nil, func(v *clusterView) {
		if n := v.nodes[addr]; n != nil {
			n.failed = failed
		}
	})
}

// SetNodeDown sets Node.Down (the simulator refuses and breaks connections of a down
// node) and the FAIL flag (see SetNodeFailed) together.
func (c *Cluster) SetNodeDown(addr string, down bool) {
	c.node(addr).Down = down
	c.SetNodeFailed(addr, down)
}

// SetClusterDown forces cluster_state:fail (keyed commands answer "CLUSTERDOWN The cluster
// is down") on the given nodes, or on every node when no address is given.
func (c *Cluster) SetClusterDown(down bool, addrs ...string) {
	if len(addrs) == 0 {
		c.downAll = down
		if !down {
			c.downNode = map[string]bool{}
		}
		return
	}
	for _, a := range addrs {
		c.downNode[a] = down
	}
}

func (c *Cluster) stateDown(addr string) bool {
	if c.downAll || c.downNode[addr] {
		return true
	}
	if c.RequireFullCoverage {
		v := c.view(addr)
		for _, o := range v.slots {
			if o == "" {
				return true
			}
			if n := v.nodes[o]; n != nil && n.failed {
				return true
			}
		}
	}
	return false
}

// health returns the CLUSTER SHARDS health of node x as seen from view v.
func (c *Cluster) health(v *clusterView, x string) string {
	if o := c.opts[x]; o != nil && o.Health != "" {
		return o.Health
	}
	vn := v.nodes[x]
	if vn != nil && vn.failed {
		return "fail"
	}
	if vn != nil && vn.master != "" && c.offset(x) == 0 {
		return "loading"
	}
	return "online"
}

// offset is the replication offset reported for a node: 0 for a replica forced to "loading".
func (c *Cluster) offset(x string) int64 {
	if o := c.opts[x]; o != nil && o.Health == "loading" {
		return 0
	}
	if n := c.w.Nodes[x]; n != nil {
		return replOffset(n)
	}
	return 1
}

// ---------------------------------------------------------------------------
// failover

// Failover promotes newMaster, a replica of oldMaster, to master of the shard: it takes
// over all slots (and the shared Dataset), the other replicas follow it, and oldMaster
// becomes its replica. With oldMasterDown the old master is additionally marked failed and
// Node.Down (call SetNodeDown(old,false) when it "comes back": it is then a healthy
// replica). Old and new master always learn the change; other frozen nodes keep
// advertising the old master. Connections are not touched. Unless
// KeepShardSubsOnFailover is set, shard-channel subscribers on the shard's nodes receive
// sunsubscribe pushes for the channels of the moved slots (Redis 7.2 behaviour).
func (c *Cluster) Failover(oldMaster, newMaster string, oldMasterDown bool) {
	vo, vn := c.live.nodes[oldMaster], c.live.nodes[newMaster]
	if vo == nil || vo.master != "" {
		panic("fakeredis: cluster: Failover: not a master: " + oldMaster)
	}
	if vn == nil || vn.master != oldMaster {
		panic("fakeredis: cluster: Failover: " + newMaster + " is not a replica of " + oldMaster)
	}
	shard := append([]string{oldMaster}, c.live.replicasOf(oldMaster)...)
	moved := map[int]bool{}
	for s, o := range c.live.slots {
		if o == oldMaster {
			moved[s] = true
		}
	}
	c.mutate([]string{oldMaster, newMaster}, func(v *clusterView) {
		for s, o := range v.slots {
			if o == oldMaster {
				v.slots[s] = newMaster
			}
		}
		for _, n := range v.nodes {
			if n.master == oldMaster {
				n.master = newMaster
			}
		}
		if n := v.nodes[newMaster]; n != nil {
			n.master = ""
		}
		if n := v.nodes[oldMaster]; n != nil {
			n.master = newMaster
		}
	})
	for _, m := range c.migr {
		if m.from == oldMaster {
			m.from = newMaster
		}
		if m.to == oldMaster {
			m.to = newMaster
		}
	}
	if oldMasterDown {
		c.SetNodeDown(oldMaster, true)
	}
	if !c.KeepShardSubsOnFailover {
		c.dropShardChannels(shard, func(s int) bool { return moved[s] })
	}
}

// ---------------------------------------------------------------------------
// slot migration

func (c *Cluster) isLiveMaster(addr string) bool {
	vn := c.live.nodes[addr]
	return vn != nil && vn.master == ""
}

// MigrateStart opens a migration of slot from its current owner to master `to`: the owner
// marks the slot MIGRATING, the target IMPORTING. Ownership does not change yet. From now
// on the owner answers ASK for keys it no longer (or not yet) has and the target serves the
// slot only after ASKING.
func (c *Cluster) MigrateStart(slot int, to string) {
	from := c.live.slots[slot]
	if from == "" {
		panic(fmt.Sprintf("fakeredis: cluster: MigrateStart: slot %d is unassigned", slot))
	}
	if !c.isLiveMaster(to) || to == from {
		panic("fakeredis: cluster: MigrateStart: bad target " + to)
	}
	c.migr[slot] = &migration{from: from, to: to}
}

// Migrating reports the open migration of slot ("" , "" when none).
func (c *Cluster) Migrating(slot int) (from, to string) {
	if m := c.migr[slot]; m != nil {
		return m.from, m.to
	}
	return "", ""
}

// MigrateKey moves one key of a slot under migration from the source to the target (what
// MIGRATE does: the key is deleted on the source, which invalidates it for tracking
// clients and WATCHers there, and restored with its value and remaining TTL on the
// target). It reports whether the key existed on the source.
func (c *Cluster) MigrateKey(key string) bool {
	m := c.migr[KeySlot(key)]
	if m == nil {
		panic("fakeredis: cluster: MigrateKey: slot of " + key + " is not being migrated")
	}
	from, to := c.node(m.from), c.node(m.to)
	ok := c.moveKey(from, to, key)
	c.afterMove(from, to)
	return ok
}

// MigrateSomeKeys moves up to n of the remaining keys of a migrating slot (in sorted key
// order) and returns them.
func (c *Cluster) MigrateSomeKeys(slot, n int) []string {
	m := c.migr[slot]
	if m == nil {
		panic(fmt.Sprintf("fakeredis: cluster: MigrateSomeKeys: slot %d is not being migrated", slot))
	}
	from, to := c.node(m.from), c.node(m.to)
	var moved []string
	for _, k := range keysInSlot(from.DBs, slot) {
		if len(moved) >= n {
			break
		}
		if c.moveKey(from, to, k) {
			moved = append(moved, k)
		}
	}
	c.afterMove(from, to)
	return moved
}

// MigrateFinish completes a migration: the remaining keys move, the ownership of the slot
// flips to the target (CLUSTER SETSLOT NODE on source and target: both always learn it,
// other frozen nodes do not) and the MIGRATING/IMPORTING marks are cleared.
func (c *Cluster) MigrateFinish(slot int) {
	m := c.migr[slot]
	if m == nil {
		panic(fmt.Sprintf("fakeredis: cluster: MigrateFinish: slot %d is not being migrated", slot))
	}
	from, to := c.node(m.from), c.node(m.to)
	for _, k := range keysInSlot(from.DBs, slot) {
		c.moveKey(from, to, k)
	}
	c.afterMove(from, to)
	c.loseSlot(slot, m.to)
}

// MigrateCancel clears the MIGRATING/IMPORTING marks without changing ownership (CLUSTER
// SETSLOT STABLE). Keys already moved stay on the target, as they would in Redis.
func (c *Cluster) MigrateCancel(slot int) { delete(c.migr, slot) }

// MoveSlot moves slot with all its keys to master `to` in one step (MigrateStart +
// MigrateFinish, or just the finish when a migration to `to` is already open).
func (c *Cluster) MoveSlot(slot int, to string) {
	if m := c.migr[slot]; m == nil || m.to != to {
		if c.live.slots[slot] == to {
			return
		}
		c.MigrateStart(slot, to)
	}
	c.MigrateFinish(slot)
}

// MoveSlots is MoveSlot for every assigned slot in the inclusive range lo..hi.
func (c *Cluster) MoveSlots(lo, hi int, to string) {
	for s := lo; s <= hi; s++ {
		if c.live.slots[s] != "" {
			c.MoveSlot(s, to)
		}
	}
}

// KeysInSlot returns the sorted keys of slot stored in the dataset of node addr.
func (c *Cluster) KeysInSlot(addr string, slot int) []string {
	return keysInSlot(c.node(addr).DBs, slot)
}

func keysInSlot(d *Dataset, slot int) []string {
	var ks []string
	for k := range d.db(0) {
		if KeySlot(k) == slot {
			ks = append(ks, k)
		}
	}
	sort.Strings(ks)
	return ks
}

// moveKey moves key (db 0) between the datasets of two nodes, like MIGRATE: expired keys
// are dropped instead of moved, the remaining TTL is preserved relative to each node's clock.
func (c *Cluster) moveKey(from, to *Node, key string) bool {
	fd, td := from.DBs, to.DBs
	if fd == td {
		return fd.db(0)[key] != nil
	}
	e := fd.db(0)[key]
	if e == nil {
		return false
	}
	delete(fd.db(0), key)
	fd.touch(c.w, nil, key)
	if !e.expireAt.IsZero() {
		if !from.now().Before(e.expireAt) {
			return false // logically expired: MIGRATE does not see it
		}
		e.expireAt = e.expireAt.Add(to.ClockOff - from.ClockOff)
	}
	td.db(0)[key] = e
	td.touch(c.w, nil, key)
	return true
}

func (c *Cluster) afterMove(from, to *Node) {
	from.DBs.FlushBroadcast()
	to.DBs.FlushBroadcast()
	c.w.serveBlocked(to)
}

// ---------------------------------------------------------------------------
// redirection

func (c *Cluster) count(v resp.Value) resp.Value {
	if i := strings.IndexByte(v.S, ' '); i > 0 {
		c.Redirects[v.S[:i]]++
	}
	return v
}

func splitHostPort(addr string) (host string, port int) {
	i := strings.LastIndex(addr, ":")
	if i < 0 {
		return addr, 0
	}
	host = addr[:i]
	if len(host) >= 2 && host[0] == '[' && host[len(host)-1] == ']' {
		host = host[1 : len(host)-1]
	}
	port, _ = strconv.Atoi(addr[i+1:])
	return host, port
}

func (c *Cluster) prefEndpoint(me string) string {
	if o := c.opts[me]; o != nil && o.PreferredEndpoint != "" {
		return o.PreferredEndpoint
	}
	if c.PreferredEndpoint != "" {
		return c.PreferredEndpoint
	}
	return "ip"
}

func (c *Cluster) ipOf(x string) string {
	o := c.opts[x]
	if o != nil && o.UnknownIP {
		return ""
	}
	if o != nil && o.AnnounceIP != "" {
		return o.AnnounceIP
	}
	h, _ := splitHostPort(x)
	return h
}

func (c *Cluster) hostnameOf(x string) string {
	if o := c.opts[x]; o != nil {
		return o.Hostname
	}
	return ""
}

func (c *Cluster) tcpPort(x string) int {
	if o := c.opts[x]; o != nil && o.Port != 0 {
		return o.Port
	}
	_, p := splitHostPort(x)
	return p
}

// clientPort is the port reported to clients in CLUSTER SLOTS and redirects.
func (c *Cluster) clientPort(x string) int {
	if o := c.opts[x]; o != nil && o.TLSPort != 0 && (c.TLSClients || o.NoTCPPort) {
		return o.TLSPort
	}
	return c.tcpPort(x)
}

// endpoint returns how node x is named by node me; null reports the unknown-endpoint form.
func (c *Cluster) endpoint(me, x string) (ep string, null bool) {
	if o := c.opts[x]; o != nil && o.EndpointOverride != "" {
		switch o.EndpointOverride {
		case EndpointEmpty:
			return "", false
		case EndpointNull:
			return "", true
		}
		return o.EndpointOverride, false
	}
	switch c.prefEndpoint(me) {
	case "hostname":
		if h := c.hostnameOf(x); h != "" {
			return h, false
		}
		return "?", false
	case "unknown-endpoint":
		return "", true
	}
	return c.ipOf(x), false
}

// redirectAddr is the "<endpoint>:<port>" of a MOVED/ASK sent by node me about node x
// (raw, unbracketed IPv6, exactly as Redis prints it).
func (c *Cluster) redirectAddr(me, x string) string {
	ep, _ := c.endpoint(me, x)
	return ep + ":" + strconv.Itoa(c.clientPort(x))
}

func isShardPubSub(name string) bool {
	return name == "SSUBSCRIBE" || name == "SUNSUBSCRIBE" || name == "SPUBLISH"
}

func cmdKeys(name string, spec *cmdSpec, argv []string) []string {
	if name == "SUNSUBSCRIBE" {
		return argv[1:]
	}
	return spec.keys(argv)
}

// check implements Redis' getNodeByQuery for a command received on sc. It returns the
// error to send and true when the command must not be executed by this node.
func (c *Cluster) check(sc *SrvConn, name string, spec *cmdSpec, argv []string) (resp.Value, bool) {
	me := sc.Node.Addr
	v := c.view(me)
	if v.nodes[me] == nil {
		// a cluster-enabled node that is not a member of the cluster knows no slot owner:
		// keyed commands answer CLUSTERDOWN Hash slot not served
		v = &clusterView{nodes: map[string]*viewNode{}}
	}
	type one struct {
		name string
		spec *cmdSpec
		argv []string
	}
	var cmds []one
	isExec := name == "EXEC"
	if isExec {
		if !sc.multi {
			return resp.Value{}, false
		}
		for _, q := range sc.queued {
			qn := up(q[0])
			if qs := specs[qn]; qs != nil {
				cmds = append(cmds, one{qn, qs, q})
			}
		}
	} else {
		cmds = []one{{name, spec, argv}}
	}
	fail := func(e resp.Value) (resp.Value, bool) {
		if isExec {
			// Redis discards the transaction when EXEC itself is redirected
			sc.multi, sc.queued, sc.multiDirty, sc.watching = false, nil, false, nil
			sc.caching = 0
		}
		return c.count(e), true
	}
	pubsubShard := isShardPubSub(name)
	myMaster := v.masterOf(me)
	iAmReplica := myMaster != me

	owner, slot, first := "", 0, ""
	haveKey := false
	migrating, importing, multipleKeys := false, false, false
	missing, existing := 0, 0
	write := false
	d := sc.Node.DBs
	for _, cm := range cmds {
		if cm.spec.write {
			write = true
		}
		for _, k := range cmdKeys(cm.name, cm.spec, cm.argv) {
			s := KeySlot(k)
			if !haveKey {
				haveKey, first, slot = true, k, s
				owner = v.slots[s]
				if owner == "" {
					return fail(resp.Err("CLUSTERDOWN Hash slot not served"))
				}
				if m := c.migr[s]; m != nil {
					if owner == me && m.from == me {
						migrating = true
					} else if m.to == me {
						importing = true
					}
				}
			} else {
				if s != slot {
					return fail(resp.Err("CROSSSLOT Keys in request don't hash to the same slot"))
				}
				if importing && k != first {
					multipleKeys = true
				}
			}
			if (migrating || importing) && !pubsubShard {
				if e := d.db(0)[k]; e == nil || (!e.expireAt.IsZero() && !sc.Node.now().Before(e.expireAt)) {
					missing++
				} else {
					existing++
				}
			}
		}
	}
	if !haveKey {
		return resp.Value{}, false
	}
	if c.stateDown(me) {
		switch {
		case pubsubShard:
			if c.BlockPubSubShardWhenDown {
				return fail(resp.Err("CLUSTERDOWN The cluster is down"))
			}
		case !c.AllowReadsWhenDown:
			return fail(resp.Err("CLUSTERDOWN The cluster is down"))
		case write:
			return fail(resp.Err("CLUSTERDOWN The cluster is down and only accepts read commands"))
		}
	}
	if migrating && missing > 0 {
		if existing > 0 {
			return fail(resp.Err("TRYAGAIN Multiple keys request during rehashing of slot"))
		}
		return fail(resp.Err(fmt.Sprintf("ASK %d %s", slot, c.redirectAddr(me, c.migr[slot].to))))
	}
	if importing && sc.asking {
		if multipleKeys && missing > 0 {
			return fail(resp.Err("TRYAGAIN Multiple keys request during rehashing of slot"))
		}
		return resp.Value{}, false
	}
	if (sc.Sess.ReadOnly || pubsubShard) && !write && iAmReplica && myMaster == owner {
		c.guardStaleServe(sc.Node, slot)
		return resp.Value{}, false
	}
	if owner != me {
		return fail(resp.Err(fmt.Sprintf("MOVED %d %s", slot, c.redirectAddr(me, owner))))
	}
	c.guardStaleServe(sc.Node, slot)
	return resp.Value{}, false
}

// guardStaleServe flags the one situation the shared-dataset model cannot represent: a node
// serving a slot (according to its hand-edited view) whose keys live in another dataset.
func (c *Cluster) guardStaleServe(n *Node, slot int) {
	if o := c.live.slots[slot]; o != "" && c.w.Nodes[o] != nil && c.w.Nodes[o].DBs != n.DBs {
		c.w.gap("cluster: node %s serves slot %d from its view, but the slot's data lives on %s (SetViewSlotOwner misuse)", n.Addr, slot, o)
	}
}

// ---------------------------------------------------------------------------
// CLUSTER command

func init() {
	reg("CLUSTER", &cmdSpec{arity: -2, fn: cmdCluster})
}

func majorVersion(n *Node) int {
	s := n.Version
	if i := strings.IndexByte(s, '.'); i >= 0 {
		s = s[:i]
	}
	v, err := strconv.Atoi(s)
	if err != nil {
		return 7
	}
	return v
}

func cmdCluster(w *World, sc *SrvConn, e *Exec, a []string) result {
	n := sc.Node
	if !n.ClusterEnabled {
		return rv(resp.Err("ERR This instance has cluster support disabled"))
	}
	c := w.Cluster
	if c == nil {
		w.gap("CLUSTER %s on a cluster-enabled node without a Cluster model", a[1])
		return rv(resp.Err("ERR cluster model missing"))
	}
	me := n.Addr
	sub := up(a[1])
	wrongArgs := func() result {
		return rv(resp.Err(fmt.Sprintf("ERR wrong number of arguments for 'cluster|%s' command", strings.ToLower(a[1]))))
	}
	slotArg := func(s string) (int, bool) {
		v, ok := atoi(s)
		if !ok || v < 0 || v >= NumSlots {
			return 0, false
		}
		return int(v), true
	}
	switch sub {
	case "SLOTS":
		if len(a) != 2 {
			return wrongArgs()
		}
		if o := c.opts[me]; o != nil && o.RawSlots != nil {
			return rv(*o.RawSlots)
		}
		return rv(c.slotsReply(me, majorVersion(n)))
	case "SHARDS":
		if majorVersion(n) < 7 {
			return rv(resp.Err("ERR Unknown subcommand or wrong number of arguments for 'SHARDS'. Try CLUSTER HELP."))
		}
		if len(a) != 2 {
			return wrongArgs()
		}
		if o := c.opts[me]; o != nil && o.RawShards != nil {
			return rv(*o.RawShards)
		}
		return rv(c.shardsReply(me))
	case "NODES":
		if len(a) != 2 {
			return wrongArgs()
		}
		return rv(resp.Verbatim("txt:" + c.nodesText(me)))
	case "MYID":
		if len(a) != 2 {
			return wrongArgs()
		}
		return rv(resp.Bulk(c.nodeID(me)))
	case "MYSHARDID":
		if len(a) != 2 {
			return wrongArgs()
		}
		if vn := c.view(me).nodes[me]; vn != nil {
			return rv(resp.Bulk(shardID(vn.shard)))
		}
		return rv(resp.Bulk(shardID(-1)))
	case "KEYSLOT":
		if len(a) != 3 {
			return wrongArgs()
		}
		return rv(resp.Int(int64(KeySlot(a[2]))))
	case "COUNTKEYSINSLOT":
		if len(a) != 3 {
			return wrongArgs()
		}
		s, ok := slotArg(a[2])
		if !ok {
			return rv(resp.Err("ERR Invalid slot"))
		}
		return rv(resp.Int(int64(len(keysInSlot(n.DBs, s)))))
	case "GETKEYSINSLOT":
		if len(a) != 4 {
			return wrongArgs()
		}
		s, ok := slotArg(a[2])
		cnt, ok2 := atoi(a[3])
		if !ok || !ok2 || cnt < 0 {
			return rv(resp.Err("ERR Invalid slot or number of keys"))
		}
		ks := keysInSlot(n.DBs, s)
		if int64(len(ks)) > cnt {
			ks = ks[:cnt]
		}
		return rv(resp.Strs(ks...))
	case "INFO":
		if len(a) != 2 {
			return wrongArgs()
		}
		return rv(resp.Verbatim("txt:" + c.infoText(me)))
	}
	w.gap("CLUSTER %s is not modelled", a[1])
	return rv(resp.Err(fmt.Sprintf("ERR unknown subcommand '%s'. Try CLUSTER HELP.", a[1])))
}

func (c *Cluster) nodeID(addr string) string {
	if n := c.w.Nodes[addr]; n != nil {
		return n.RunID
	}
	return strings.Repeat("0", 40)
}

func shardID(ord int) string { return fmt.Sprintf("%040x", 0xabc000+ord+1) }

func bulkOrNull(s string, null bool) resp.Value {
	if null {
		return resp.Nil()
	}
	return resp.Bulk(s)
}

// slotsNode builds one node entry of CLUSTER SLOTS as answered by me.
func (c *Cluster) slotsNode(me, x string, major int) resp.Value {
	ep, null := c.endpoint(me, x)
	out := resp.Arr(bulkOrNull(ep, null), resp.Int(int64(c.clientPort(x))))
	if major < 4 {
		return out
	}
	out.A = append(out.A, resp.Bulk(c.nodeID(x)))
	if major < 7 {
		return out
	}
	meta := resp.Map()
	pe := c.prefEndpoint(me)
	if pe != "ip" {
		meta.A = append(meta.A, resp.Bulk("ip"), resp.Bulk(c.ipOf(x)))
	}
	if h := c.hostnameOf(x); pe != "hostname" && h != "" {
		meta.A = append(meta.A, resp.Bulk("hostname"), resp.Bulk(h))
	}
	out.A = append(out.A, meta)
	return out
}

// slotsReply builds CLUSTER SLOTS as Redis 7 does: one entry per contiguous range in slot
// order: [start, end, master, available replicas...].
func (c *Cluster) slotsReply(me string, major int) resp.Value {
	v := c.view(me)
	out := resp.Arr()
	start := 0
	for s := 1; s <= NumSlots; s++ {
		if s < NumSlots && v.slots[s] == v.slots[start] {
			continue
		}
		if o := v.slots[start]; o != "" && v.nodes[o] != nil {
			ent := resp.Arr(resp.Int(int64(start)), resp.Int(int64(s-1)), c.slotsNode(me, o, major))
			for _, r := range v.replicasOf(o) {
				if c.health(v, r) != "online" {
					continue
				}
				ent.A = append(ent.A, c.slotsNode(me, r, major))
			}
			out.A = append(out.A, ent)
		}
		start = s
	}
	return out
}

// shardsReply builds CLUSTER SHARDS: an array of maps {slots: [start,end,...], nodes: [map...]}.
func (c *Cluster) shardsReply(me string) resp.Value {
	v := c.view(me)
	out := resp.Arr()
	ids, members := v.shards()
	for _, id := range ids {
		slots := resp.Arr()
		nodes := resp.Arr()
		for _, x := range members[id] {
			vn := v.nodes[x]
			if vn.master == "" {
				for _, r := range v.ranges(x) {
					slots.A = append(slots.A, resp.Int(int64(r[0])), resp.Int(int64(r[1])))
				}
			}
			o := c.opts[x]
			m := resp.Map(resp.Bulk("id"), resp.Bulk(c.nodeID(x)))
			if o == nil || !o.NoTCPPort {
				m.A = append(m.A, resp.Bulk("port"), resp.Int(int64(c.tcpPort(x))))
			}
			if o != nil && o.TLSPort != 0 {
				m.A = append(m.A, resp.Bulk("tls-port"), resp.Int(int64(o.TLSPort)))
			}
			ep, _ := c.endpoint(me, x)
			m.A = append(m.A, resp.Bulk("ip"), resp.Bulk(c.ipOf(x)), resp.Bulk("endpoint"), resp.Bulk(ep))
			if h := c.hostnameOf(x); h != "" {
				m.A = append(m.A, resp.Bulk("hostname"), resp.Bulk(h))
			}
			role := "master"
			if vn.master != "" {
				role = "replica"
			}
			m.A = append(m.A,
				resp.Bulk("role"), resp.Bulk(role),
				resp.Bulk("replication-offset"), resp.Int(c.offset(x)),
				resp.Bulk("health"), resp.Bulk(c.health(v, x)))
			nodes.A = append(nodes.A, m)
		}
		out.A = append(out.A, resp.Map(resp.Bulk("slots"), slots, resp.Bulk("nodes"), nodes))
	}
	return out
}

// nodesText builds CLUSTER NODES.
func (c *Cluster) nodesText(me string) string {
	v := c.view(me)
	var sb strings.Builder
	for _, x := range v.order {
		vn := v.nodes[x]
		ip := c.ipOf(x)
		port := c.clientPort(x)
		fmt.Fprintf(&sb, "%s %s:%d@%d", c.nodeID(x), ip, port, c.tcpPort(x)+10000)
		if h := c.hostnameOf(x); h != "" {
			sb.WriteString("," + h)
		}
		var flags []string
		if x == me {
			flags = append(flags, "myself")
		}
		if vn.master == "" {
			flags = append(flags, "master")
		} else {
			flags = append(flags, "slave")
		}
		if vn.failed {
			flags = append(flags, "fail")
		}
		master := "-"
		if vn.master != "" {
			master = c.nodeID(vn.master)
		}
		link := "connected"
		if vn.failed && x != me {
			link = "disconnected"
		}
		fmt.Fprintf(&sb, " %s %s 0 0 %d %s", strings.Join(flags, ","), master, vn.shard+1, link)
		if vn.master == "" {
			for _, r := range v.ranges(x) {
				if r[0] == r[1] {
					fmt.Fprintf(&sb, " %d", r[0])
				} else {
					fmt.Fprintf(&sb, " %d-%d", r[0], r[1])
				}
			}
			if x == me {
				var ms []int
				for s := range c.migr {
					ms = append(ms, s)
				}
				sort.Ints(ms)
				for _, s := range ms {
					m := c.migr[s]
					if m.from == me {
						fmt.Fprintf(&sb, " [%d->-%s]", s, c.nodeID(m.to))
					}
					if m.to == me {
						fmt.Fprintf(&sb, " [%d-<-%s]", s, c.nodeID(m.from))
					}
				}
			}
		}
		sb.WriteString("\n")
	}
	return sb.String()
}

// infoText builds CLUSTER INFO.
func (c *Cluster) infoText(me string) string {
	v := c.view(me)
	assigned, failSlots, size := 0, 0, 0
	owners := map[string]bool{}
	for _, o := range v.slots {
		if o == "" {
			continue
		}
		assigned++
		if n := v.nodes[o]; n != nil && n.failed {
			failSlots++
		}
		if !owners[o] {
			owners[o] = true
			size++
		}
	}
	state := "ok"
	if c.stateDown(me) {
		state = "fail"
	}
	myEpoch := 0
	if vn := v.nodes[v.masterOf(me)]; vn != nil {
		myEpoch = vn.shard + 1
	}
	var sb strings.Builder
	fmt.Fprintf(&sb, "cluster_state:%s\r\n", state)
	fmt.Fprintf(&sb, "cluster_slots_assigned:%d\r\n", assigned)
	fmt.Fprintf(&sb, "cluster_slots_ok:%d\r\n", assigned-failSlots)
	fmt.Fprintf(&sb, "cluster_slots_pfail:0\r\n")
	fmt.Fprintf(&sb, "cluster_slots_fail:%d\r\n", failSlots)
	fmt.Fprintf(&sb, "cluster_known_nodes:%d\r\n", len(v.order))
	fmt.Fprintf(&sb, "cluster_size:%d\r\n", size)
	fmt.Fprintf(&sb, "cluster_current_epoch:%d\r\n", v.epoch)
	fmt.Fprintf(&sb, "cluster_my_epoch:%d\r\n", myEpoch)
	sb.WriteString("cluster_stats_messages_sent:0\r\ncluster_stats_messages_received:0\r\ntotal_cluster_links_buffer_limit_exceeded:0\r\n")
	return sb.String()
}
