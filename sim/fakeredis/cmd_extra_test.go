package fakeredis

import (
	"strings"
	"testing"
	"time"
)

const errWT = `-"WRONGTYPE Operation against a key holding the wrong kind of value"`

func TestBitfieldGetSetIncr(t *testing.T) {
	w, _, n, c := single(t)
	// the examples of the Redis documentation
	c.want(`*[:1 :0]`, "BITFIELD", "mykey", "INCRBY", "i5", "100", "1", "GET", "u4", "0")
	eq(t, "bytes", len(str(n, "mykey")), 14) // bits 100..104 need 14 bytes
	c.want(`*[:0]`, "BITFIELD", "k", "SET", "u8", "0", "255")
	c.want(`*[:255 :-1 :15 :-1 :1]`, "BITFIELD", "k", "GET", "u8", "0", "GET", "i8", "0", "GET", "u4", "4", "GET", "i1", "7", "GET", "u1", "7")
	eq(t, "k", str(n, "k"), "\xff")
	// "#N" is N times the width; bits past the end read as zero and do not grow the string
	c.want(`*[:0 :7 :0]`, "BITFIELD", "k", "SET", "u8", "#1", "7", "GET", "u8", "8", "GET", "u16", "#5")
	eq(t, "k", str(n, "k"), "\xff\x07")
	c.want(`*[:1792]`, "BITFIELD", "k", "GET", "u12", "#1")    // bits 12..23: 0x7 then a byte past the end, read as zero
	c.want(`*[:57568]`, "BITFIELD_RO", "k", "GET", "u16", "5") // 111 00000111 00000
	// 64 bit signed fields
	c.want(`*[:0 :-1 :0]`, "BITFIELD", "w", "SET", "i64", "0", "-1", "GET", "i64", "0", "INCRBY", "i64", "0", "1")
	c.want(`*[:0 :9223372036854775807]`, "BITFIELD", "w", "SET", "u63", "1", "9223372036854775807", "GET", "u63", "1")
	// reads do not create keys; no operation at all is an empty reply
	c.want(`*[:0 :0]`, "BITFIELD", "nokey", "GET", "u8", "0", "GET", "i64", "1000")
	c.want(`*[:0]`, "BITFIELD_RO", "nokey", "GET", "u8", "0")
	c.want(`*[]`, "BITFIELD", "nokey")
	eq(t, "created", n.DBs.Has("nokey"), false)
	noGaps(t, w)
}

func TestBitfieldOverflow(t *testing.T) {
	w, _, n, c := single(t)
	// documentation example: the first counter wraps, the second saturates
	for _, want := range []string{`*[:1 :1]`, `*[:2 :2]`, `*[:3 :3]`, `*[:0 :3]`} {
		c.want(want, "BITFIELD", "mykey", "incrby", "u2", "100", "1", "OVERFLOW", "SAT", "incrby", "u2", "102", "1")
	}
	c.want(`*[nil]`, "BITFIELD", "mykey", "OVERFLOW", "FAIL", "incrby", "u2", "102", "1")
	c.want(`*[:3]`, "BITFIELD", "mykey", "GET", "u2", "102")

	// unsigned: wrap both ways, saturate both ways, fail leaves the value alone
	c.want(`*[:0 :44 :44]`, "BITFIELD", "u", "SET", "u8", "0", "200", "INCRBY", "u8", "0", "100", "SET", "u8", "0", "200")
	c.want(`*[:199]`, "BITFIELD", "u", "INCRBY", "u8", "0", "-257")
	c.want(`*[:255 :0]`, "BITFIELD", "u", "OVERFLOW", "SAT", "INCRBY", "u8", "0", "100", "INCRBY", "u8", "0", "-1000")
	c.want(`*[nil nil :0]`, "BITFIELD", "u", "OVERFLOW", "FAIL", "INCRBY", "u8", "0", "-1", "INCRBY", "u8", "0", "256", "GET", "u8", "0")
	// SET is subject to the overflow policy as well
	c.want(`*[:0 :0]`, "BITFIELD", "u", "SET", "u8", "0", "256", "GET", "u8", "0")
	c.want(`*[:0 :255]`, "BITFIELD", "u", "SET", "u8", "0", "-1", "GET", "u8", "0")
	c.want(`*[:255 :255]`, "BITFIELD", "u", "OVERFLOW", "SAT", "SET", "u8", "0", "1000", "GET", "u8", "0")
	c.want(`*[nil :255]`, "BITFIELD", "u", "OVERFLOW", "FAIL", "SET", "u8", "0", "1000", "GET", "u8", "0")

	// signed
	c.want(`*[:0 :127 :-128]`, "BITFIELD", "s", "SET", "i8", "0", "127", "GET", "i8", "0", "INCRBY", "i8", "0", "1")
	c.want(`*[:127]`, "BITFIELD", "s", "INCRBY", "i8", "0", "-1")
	c.want(`*[:127 :-128]`, "BITFIELD", "s", "OVERFLOW", "SAT", "INCRBY", "i8", "0", "100", "INCRBY", "i8", "0", "-1000")
	c.want(`*[nil :-128]`, "BITFIELD", "s", "OVERFLOW", "FAIL", "INCRBY", "i8", "0", "-1", "GET", "i8", "0")
	c.want(`*[:-128 :-56]`, "BITFIELD", "s", "SET", "i8", "0", "200", "GET", "i8", "0") // 200 wraps to -56
	// the OVERFLOW policy applies to the operations that follow it, until the next OVERFLOW
	c.want(`*[:-56 nil :127 :-128]`, "BITFIELD", "s", "SET", "i8", "0", "127", "OVERFLOW", "FAIL", "INCRBY", "i8", "0", "1", "OVERFLOW", "SAT", "INCRBY", "i8", "0", "1", "OVERFLOW", "WRAP", "INCRBY", "i8", "0", "1")
	// 64 bit
	c.want(`*[:0 :-9223372036854775808]`, "BITFIELD", "q", "SET", "i64", "0", "9223372036854775807", "INCRBY", "i64", "0", "1")
	c.want(`*[:-9223372036854775808 :9223372036854775807 nil]`, "BITFIELD", "q", "SET", "i64", "0", "9223372036854775807", "OVERFLOW", "SAT", "INCRBY", "i64", "0", "5", "OVERFLOW", "FAIL", "INCRBY", "i64", "0", "1")
	c.want(`*[:-1]`, "BITFIELD", "q", "OVERFLOW", "SAT", "INCRBY", "i64", "0", "-9223372036854775808")                         // max + min: no overflow
	c.want(`*[:9223372036854775807 :0]`, "BITFIELD", "q", "SET", "u63", "1", "9223372036854775807", "INCRBY", "u63", "1", "1") // q was all ones
	eq(t, "exists", n.DBs.Has("q"), true)
	noGaps(t, w)
}

func TestBitfieldErrorsAndSideEffects(t *testing.T) {
	w, clk, n, c := single(t)
	const typeErr = `-"ERR Invalid bitfield type. Use something like i16 u8. Note that u64 is not supported but i64 is."`
	for _, typ := range []string{"u64", "i65", "u0", "i0", "x8", "u", "8", "U8", "u-1"} {
		c.want(typeErr, "BITFIELD", "k", "GET", typ, "0")
	}
	const offErr = `-"ERR bit offset is not an integer or out of range"`
	for _, off := range []string{"-1", "#-1", "x", "#", "4294967296"} {
		c.want(offErr, "BITFIELD", "k", "GET", "u8", off)
	}
	c.want(`-"ERR syntax error"`, "BITFIELD", "k", "GET", "u8")
	c.want(`-"ERR syntax error"`, "BITFIELD", "k", "SET", "u8", "0")
	c.want(`-"ERR syntax error"`, "BITFIELD", "k", "FROB", "u8", "0")
	c.want(`-"ERR syntax error"`, "BITFIELD", "k", "OVERFLOW")
	c.want(`-"ERR Invalid OVERFLOW type specified"`, "BITFIELD", "k", "OVERFLOW", "MAYBE")
	c.want(`-"ERR value is not an integer or out of range"`, "BITFIELD", "k", "SET", "u8", "0", "x")
	c.want(`-"ERR BITFIELD_RO only supports the GET subcommand"`, "BITFIELD_RO", "k", "SET", "u8", "0", "1")
	c.want(`-"ERR BITFIELD_RO only supports the GET subcommand"`, "BITFIELD_RO", "k", "GET", "u8", "0", "INCRBY", "u8", "0", "1")
	// an error in a later operation: nothing is executed
	c.want(`-"ERR syntax error"`, "BITFIELD", "k", "SET", "u8", "0", "1", "NOPE")
	eq(t, "created", n.DBs.Has("k"), false)
	c.want(`:1`, "HSET", "h", "f", "v")
	c.want(errWT, "BITFIELD", "h", "GET", "u8", "0")
	c.want(errWT, "BITFIELD", "h", "SET", "u8", "0", "1")
	c.want(errWT, "BITFIELD_RO", "h", "GET", "u8", "0")
	noGaps(t, w)

	// modifications are signalled only when something changed (creation, growth or different bits)
	a := dial(t, w, "a:1", 1)
	a.do("HELLO", "3")
	a.do("CLIENT", "TRACKING", "ON")
	c.want(`+"OK"`, "SET", "b", "\x80", "PX", "5000")
	a.want(`*[:1]`, "BITFIELD_RO", "b", "GET", "u1", "0") // a read-only command: tracked
	mods := len(n.DBs.Mods)
	c.want(`*[:1]`, "BITFIELD", "b", "SET", "u1", "0", "1")
	eq(t, "unchanged", len(n.DBs.Mods), mods)
	eq(t, "pushes", a.pushLog(), "")
	c.want(`*[:0]`, "BITFIELD", "b", "SET", "u1", "1", "1")
	eq(t, "pushes", a.pushLog(), `>["invalidate" *["b"]]`)
	eq(t, "b", str(n, "b"), "\xc0")
	eq(t, "in place: the expiry stays", expiryMs(n, "b"), testEpochMs+123+5000)
	mods = len(n.DBs.Mods)
	c.want(`*[:0]`, "BITFIELD", "b", "SET", "u1", "8", "0") // same bits, but the string grows
	eq(t, "growth", len(n.DBs.Mods), mods+1)
	eq(t, "b", str(n, "b"), "\xc0\x00")
	clk.advance(5 * time.Second)
	c.want(`*[:0]`, "BITFIELD", "b", "GET", "u8", "0")
	eq(t, "expired", n.DBs.Has("b"), false)
	noGaps(t, w)
}

func TestBitCommands(t *testing.T) {
	w, _, n, c := single(t)
	c.want(`:0`, "SETBIT", "b", "7", "1")
	c.want(`:1`, "SETBIT", "b", "7", "1")
	c.want(`:0`, "SETBIT", "b", "9", "1")
	eq(t, "b", str(n, "b"), "\x01\x40")
	c.want(`:1`, "GETBIT", "b", "7")
	c.want(`:0`, "GETBIT", "b", "8")
	c.want(`:0`, "GETBIT", "b", "100000")
	c.want(`:0`, "GETBIT", "missing", "0")
	c.want(`:1`, "SETBIT", "b", "7", "0")
	c.want(`-"ERR bit is not an integer or out of range"`, "SETBIT", "b", "7", "2")
	c.want(`-"ERR bit is not an integer or out of range"`, "SETBIT", "b", "7", "x")
	c.want(`-"ERR bit offset is not an integer or out of range"`, "SETBIT", "b", "-1", "1")
	c.want(`-"ERR bit offset is not an integer or out of range"`, "SETBIT", "b", "#1", "1")
	c.want(`-"ERR bit offset is not an integer or out of range"`, "GETBIT", "b", "4294967296")
	noGaps(t, w)
	c.want(`:0`, "SETBIT", "big", "4294967295", "1") // the last bit Redis allows: held sparsely (cmd_prob.go)
	c.want(`:1`, "GETBIT", "big", "4294967295")
	noGaps(t, w)

	c.want(`+"OK"`, "SET", "s", "foobar")
	c.want(`:26`, "BITCOUNT", "s")
	c.want(`:4`, "BITCOUNT", "s", "0", "0")
	c.want(`:6`, "BITCOUNT", "s", "1", "1")
	c.want(`:6`, "BITCOUNT", "s", "1", "1", "BYTE")
	c.want(`:17`, "BITCOUNT", "s", "5", "30", "BIT")
	c.want(`:7`, "BITCOUNT", "s", "-2", "-1")
	c.want(`:0`, "BITCOUNT", "s", "3", "1")
	c.want(`:26`, "BITCOUNT", "s", "-100", "100")
	c.want(`:0`, "BITCOUNT", "missing")
	c.want(`:0`, "BITCOUNT", "missing", "0", "1")
	c.want(`-"ERR syntax error"`, "BITCOUNT", "s", "0")
	c.want(`-"ERR syntax error"`, "BITCOUNT", "s", "0", "1", "NIBBLE")
	c.want(`-"ERR value is not an integer or out of range"`, "BITCOUNT", "s", "a", "1")
	c.want(`:1`, "RPUSH", "l", "x")
	c.want(errWT, "BITCOUNT", "l")
	c.want(errWT, "GETBIT", "l", "0")
	c.want(errWT, "SETBIT", "l", "0", "1")
	noGaps(t, w)
}

func TestRename(t *testing.T) {
	w, _, n, c := single(t)
	a := dial(t, w, "a:1", 1)
	a.do("HELLO", "3")
	a.do("CLIENT", "TRACKING", "ON")
	c.want(`-"ERR no such key"`, "RENAME", "src", "dst")
	c.want(`-"ERR no such key"`, "RENAME", "src", "src")
	c.want(`-"ERR no such key"`, "RENAMENX", "src", "dst")
	c.want(`+"OK"`, "SET", "src", "v", "PX", "1000")
	c.want(`+"OK"`, "SET", "dst", "old", "PX", "90000")
	a.want(`"v"`, "GET", "src")
	a.want(`"old"`, "GET", "dst")
	c.want(`+"OK"`, "RENAME", "src", "src") // no-op
	eq(t, "pushes", a.pushLog(), "")
	c.want(`:0`, "RENAMENX", "src", "dst")
	c.want(`+"OK"`, "RENAME", "src", "dst")
	eq(t, "pushes", a.pushLog(), `>["invalidate" *["src"]] >["invalidate" *["dst"]]`)
	eq(t, "src", n.DBs.Has("src"), false)
	eq(t, "dst", str(n, "dst"), "v")
	eq(t, "the expiry moves with the value", expiryMs(n, "dst"), testEpochMs+123+1000)
	c.want(`:1`, "RENAMENX", "dst", "third")
	c.want(`:1000`, "PTTL", "third")
	noGaps(t, w)
}

func TestRenameKeepsTypesAndServesWaiters(t *testing.T) {
	w, clk, n, c := single(t)
	c.want(`:2`, "RPUSH", "l", "a", "b")
	c.want(`:1`, "HSET", "h", "f", "v")
	c.want(`+"OK"`, "RENAME", "h", "l") // overwrites a key of another type
	c.want(`"v"`, "HGET", "l", "f")
	c.want(`:1`, "RPUSH", "q1", "job")
	waiter := dial(t, w, "a:1", 1)
	waiter.send("BLPOP", "q2", "0")
	c.want(`+"OK"`, "RENAME", "q1", "q2")
	if r := waiter.drain(); len(r) != 1 || r[0].String() != `*["q2" "job"]` {
		t.Fatalf("waiter: %v", r)
	}
	// a source that has logically expired does not exist
	c.want(`+"OK"`, "SET", "e", "v", "PX", "10")
	clk.advance(10 * time.Millisecond)
	c.want(`-"ERR no such key"`, "RENAME", "e", "e2")
	eq(t, "e", n.DBs.Has("e"), false)
	// WATCH sees both keys change
	c.want(`+"OK"`, "SET", "w1", "v")
	c.want(`+"OK"`, "WATCH", "w2")
	waiter.want(`+"OK"`, "RENAME", "w1", "w2")
	c.want(`+"OK"`, "MULTI")
	c.want(`+"QUEUED"`, "PING")
	c.want(`nil*`, "EXEC")
	noGaps(t, w)
}

func TestGetex(t *testing.T) {
	w, clk, n, c := single(t)
	now := int64(testEpochMs + 123)
	c.want(`nil`, "GETEX", "k")
	c.want(`+"OK"`, "SET", "k", "v")
	mods := len(n.DBs.Mods)
	c.want(`"v"`, "GETEX", "k")
	eq(t, "plain GETEX does not modify", len(n.DBs.Mods), mods)
	c.want(`"v"`, "GETEX", "k", "PX", "1500")
	eq(t, "expiry", expiryMs(n, "k"), now+1500)
	c.want(`"v"`, "GETEX", "k", "EX", "10")
	eq(t, "expiry", expiryMs(n, "k"), now+10000)
	c.want(`"v"`, "GETEX", "k", "PXAT", ms(now+77))
	eq(t, "expiry", expiryMs(n, "k"), now+77)
	c.want(`"v"`, "GETEX", "k", "EXAT", "1800000000")
	eq(t, "expiry", expiryMs(n, "k"), 1800000000000)
	c.want(`"v"`, "GETEX", "k", "PERSIST")
	eq(t, "expiry", expiryMs(n, "k"), 0)
	mods = len(n.DBs.Mods)
	c.want(`"v"`, "GETEX", "k", "PERSIST")
	eq(t, "PERSIST without expiry does not modify", len(n.DBs.Mods), mods)
	c.want(`-"ERR syntax error"`, "GETEX", "k", "EX", "1", "PX", "1")
	c.want(`-"ERR syntax error"`, "GETEX", "k", "EX")
	c.want(`-"ERR syntax error"`, "GETEX", "k", "KEEPTTL")
	c.want(`-"ERR invalid expire time in 'getex' command"`, "GETEX", "k", "EX", "0")
	c.want(`-"ERR value is not an integer or out of range"`, "GETEX", "k", "EX", "x")
	c.want(`"v"`, "GETEX", "k", "PXAT", ms(now-1)) // already past: the key is deleted
	eq(t, "k", n.DBs.Has("k"), false)
	c.want(`:1`, "RPUSH", "l", "x")
	c.want(errWT, "GETEX", "l")
	c.want(`+"OK"`, "SET", "k", "v")
	c.want(`"v"`, "GETEX", "k", "PX", "100")
	clk.advance(100 * time.Millisecond)
	c.want(`nil`, "GETEX", "k", "PERSIST")
	noGaps(t, w)
}

func TestIncrByFloat(t *testing.T) {
	w, _, n, c := single(t)
	c.want(`+"OK"`, "SET", "f", "10.50", "PX", "1000")
	c.want(`"10.6"`, "INCRBYFLOAT", "f", "0.1") // long double arithmetic: not 10.59999999999999964
	c.want(`"5.6"`, "INCRBYFLOAT", "f", "-5")
	eq(t, "expiry kept", expiryMs(n, "f"), testEpochMs+123+1000)
	c.want(`+"OK"`, "SET", "f", "5.0e3")
	c.want(`"5200"`, "INCRBYFLOAT", "f", "2.0e2")
	c.want(`"3"`, "INCRBYFLOAT", "new", "3")
	c.want(`"3.14159265358979312"`, "INCRBYFLOAT", "new", "0.14159265358979312")
	c.want(`"0"`, "INCRBYFLOAT", "zero", "-0")
	c.want(`-"ERR value is not a valid float"`, "INCRBYFLOAT", "f", "abc")
	c.want(`-"ERR value is not a valid float"`, "INCRBYFLOAT", "f", " 1")
	c.want(`-"ERR value is not a valid float"`, "INCRBYFLOAT", "f", "")
	c.want(`+"OK"`, "SET", "s", "text")
	c.want(`-"ERR value is not a valid float"`, "INCRBYFLOAT", "s", "1")
	c.want(`-"ERR increment would produce NaN or Infinity"`, "INCRBYFLOAT", "f", "inf")
	c.want(`:1`, "RPUSH", "l", "x")
	c.want(errWT, "INCRBYFLOAT", "l", "1")

	c.want(`"10.5"`, "HINCRBYFLOAT", "h", "f", "10.50")
	c.want(`"10.6"`, "HINCRBYFLOAT", "h", "f", "0.1")
	c.want(`"10.6"`, "HGET", "h", "f")
	c.want(`:1`, "HSET", "h", "t", "text")
	c.want(`-"ERR hash value is not a float"`, "HINCRBYFLOAT", "h", "t", "1")
	c.want(`-"ERR value is not a valid float"`, "HINCRBYFLOAT", "h", "f", "x")
	c.want(errWT, "HINCRBYFLOAT", "l", "f", "1")
	noGaps(t, w)
}

// The string, hash and expiry commands the add-ons rely on, including PX expiry against the simulated clock.
func TestBasicCommandsUsedByAddOns(t *testing.T) {
	w, clk, n, c := single(t)
	now := int64(testEpochMs + 123)
	c.want(`+"OK"`, "SET", "k", "v", "PX", "1000")
	c.want(`:1000`, "PTTL", "k")
	c.want(`:1`, "TTL", "k")
	clk.advance(400 * time.Millisecond)
	c.want(`:600`, "PTTL", "k")
	c.want(`nil`, "SET", "k", "other", "NX")
	c.want(`"v"`, "SET", "k", "v2", "XX", "GET", "KEEPTTL")
	eq(t, "expiry", expiryMs(n, "k"), now+1000)
	clk.advance(600 * time.Millisecond)
	c.want(`nil`, "GET", "k")
	c.want(`:-2`, "PTTL", "k")
	c.want(`nil`, "SET", "k", "v3", "XX")
	c.want(`+"OK"`, "SET", "k", "v3", "EXAT", "1800000000")
	eq(t, "expiry", expiryMs(n, "k"), 1800000000000)
	c.want(`+"OK"`, "SET", "k", "v4", "PXAT", "1800000000500")
	c.want(`:1`, "PERSIST", "k")
	c.want(`:-1`, "TTL", "k")
	c.want(`:1`, "PEXPIRE", "k", "50")
	c.want(`:1`, "EXPIRE", "k", "50")
	c.want(`:1`, "PEXPIREAT", "k", "1800000000999")
	c.want(`:1`, "EXPIREAT", "k", "1800000001")
	eq(t, "expiry", expiryMs(n, "k"), 1800000001000)
	c.want(`:0`, "PEXPIREAT", "missing", "1800000000999")
	c.want(`-"ERR syntax error"`, "SET", "k", "v", "NX", "XX")
	c.want(`-"ERR invalid expire time in 'set' command"`, "SET", "k", "v", "PX", "0")
	c.want(`"v4"`, "GETDEL", "k")
	c.want(`nil`, "GETDEL", "k")
	c.want(`:1`, "SETNX", "k", "a")
	c.want(`:0`, "SETNX", "k", "b")
	c.want(`+"OK"`, "PSETEX", "k", "100", "p")
	c.want(`+"OK"`, "SETEX", "k", "100", "s")
	c.want(`:3`, "APPEND", "k", "xy")
	c.want(`:3`, "STRLEN", "k")
	c.want(`+"OK"`, "MSET", "m1", "1", "m2", "2")
	c.want(`:0`, "MSETNX", "m2", "x", "m3", "3")
	c.want(`:1`, "MSETNX", "m3", "3", "m4", "4")
	c.want(`*["1" "2" nil "4"]`, "MGET", "m1", "m2", "nope", "m4")
	c.want(`:3`, "EXISTS", "m1", "m2", "nope", "m1")
	c.want(`:2`, "DEL", "m1", "m2", "nope")
	c.want(`:2`, "UNLINK", "m3", "m4")
	c.want(`:5`, "INCRBY", "n", "5")
	c.want(`:6`, "INCR", "n")
	c.want(`:5`, "DECR", "n")
	c.want(`:2`, "DECRBY", "n", "3")
	c.want(`:2`, "HSET", "h", "a", "1", "b", "2")
	c.want(`:0`, "HSETNX", "h", "a", "x")
	c.want(`:1`, "HSETNX", "h", "c", "3")
	c.want(`*["1" nil "3"]`, "HMGET", "h", "a", "zz", "c")
	c.want(`:1`, "HEXISTS", "h", "a")
	c.want(`:3`, "HLEN", "h")
	c.want(`:5`, "HINCRBY", "h", "a", "4")
	c.want(`:2`, "HDEL", "h", "a", "b", "zz")
	c.want(`*["c" "3"]`, "HGETALL", "h")
	c.want(`*["1700000001" "123456"]`, "TIME")
	noGaps(t, w)
}

func TestJSONBasics(t *testing.T) {
	w, _, n, c := single(t)
	doc := `{"b":1,"a":{"x":"y"},"arr":[1,2.50,"s",null,true],"e":"é<>&"}`
	c.want(`+"OK"`, "JSON.SET", "doc", "$", doc)
	canon := `{"b":1,"a":{"x":"y"},"arr":[1,2.5,"s",null,true],"e":"é<>&"}`
	json := func(want string, args ...string) {
		t.Helper()
		v := c.do(args...)
		if v.T != '$' || v.Null || v.S != want {
			t.Fatalf("%q\n got  %s\n want %s", args, v, want)
		}
	}
	json(canon, "JSON.GET", "doc")
	json(canon, "JSON.GET", "doc", ".")
	json(`[`+canon+`]`, "JSON.GET", "doc", "$")
	json(`["y"]`, "JSON.GET", "doc", "$.a.x")
	json(`["y"]`, "JSON.GET", "doc", `$["a"]['x']`)
	json(`"y"`, "JSON.GET", "doc", ".a.x")
	json(`"y"`, "JSON.GET", "doc", "a.x")
	json(`1`, "JSON.GET", "doc", "b")
	json(`[]`, "JSON.GET", "doc", "$.nope")
	json(`[]`, "JSON.GET", "doc", "$.b.deeper")
	json(`[2.5]`, "JSON.GET", "doc", "$.arr[1]")
	json(`true`, "JSON.GET", "doc", ".arr[-1]")
	json(`[]`, "JSON.GET", "doc", "$.arr[5]")
	json(`{"$.b":[1],"$.a.x":["y"],"$.zz":[]}`, "JSON.GET", "doc", "$.b", "$.a.x", "$.zz")
	json(`{".b":1,"a.x":"y"}`, "JSON.GET", "doc", ".b", "a.x")
	json(`{"$.b":[1],"a.x":["y"]}`, "JSON.GET", "doc", "$.b", "a.x")
	c.want(`-"ERR Path '$.nope' does not exist"`, "JSON.GET", "doc", ".nope")
	c.want(`-"ERR Path '$.nope' does not exist"`, "JSON.GET", "doc", ".b", "nope")
	c.want(`nil`, "JSON.GET", "missing")
	c.want(`nil`, "JSON.GET", "missing", "$.a")
	c.want(`+"ReJSON-RL"`, "TYPE", "doc")

	// JSON.SET on members, NX / XX
	c.want(`+"OK"`, "JSON.SET", "doc", "$.c", `{"n":null}`)
	c.want(`+"OK"`, "JSON.SET", "doc", ".a.x", `"z"`)
	c.want(`+"OK"`, "JSON.SET", "doc", "$.arr[0]", `-7`)
	c.want(`nil`, "JSON.SET", "doc", "$.c", "1", "NX")
	c.want(`nil`, "JSON.SET", "doc", "$.d", "1", "XX")
	c.want(`+"OK"`, "JSON.SET", "doc", "$.d", "1", "nx")
	c.want(`+"OK"`, "JSON.SET", "doc", "$.d", "2", "XX")
	c.want(`nil`, "JSON.SET", "doc", "$", "1", "NX")
	c.want(`nil`, "JSON.SET", "missing", "$", "1", "XX")
	c.want(`nil`, "JSON.SET", "doc", "$.nope.deeper", "1")
	c.want(`nil`, "JSON.SET", "doc", "$.arr[9]", "1")
	c.want(`-"ERR Path '$.nope.deeper' does not exist"`, "JSON.SET", "doc", ".nope.deeper", "1")
	c.want(`-"ERR new objects must be created at the root"`, "JSON.SET", "fresh", "$.a", "1")
	c.want(`-"ERR syntax error"`, "JSON.SET", "doc", "$", "1", "NX", "XX")
	c.want(`-"ERR syntax error"`, "JSON.SET", "doc", "$", "1", "WHAT")
	c.wantErr("ERR ", "JSON.SET", "doc", "$.d", "{not json")
	c.wantErr("ERR ", "JSON.SET", "doc", "$.d", "1 2")
	c.wantErr("ERR ", "JSON.SET", "doc", "$.d", "")
	json(`{"b":1,"a":{"x":"z"},"arr":[-7,2.5,"s",null,true],"e":"é<>&","c":{"n":null},"d":2}`, "JSON.GET", "doc")
	noGaps(t, w)

	// numbers
	c.want(`+"OK"`, "JSON.SET", "num", "$", `{"i":1,"f":1.5,"big":1e30,"small":-0.000001,"hundred":1e2,"s":"x","max":9223372036854775807}`)
	json(`{"i":1,"f":1.5,"big":1e30,"small":-1e-6,"hundred":100.0,"s":"x","max":9223372036854775807}`, "JSON.GET", "num")
	json(`[3]`, "JSON.NUMINCRBY", "num", "$.i", "2")
	json(`4`, "JSON.NUMINCRBY", "num", "i", "1")
	json(`4.5`, "JSON.NUMINCRBY", "num", ".i", "0.5")
	json(`[3.0]`, "JSON.NUMINCRBY", "num", "$.f", "1.5")
	json(`[null]`, "JSON.NUMINCRBY", "num", "$.s", "1")
	json(`[]`, "JSON.NUMINCRBY", "num", "$.nope", "1")
	json(`[9.223372036854776e18]`, "JSON.NUMINCRBY", "num", "$.max", "1")
	c.want(`-"ERR wrong type of path value - expected a number but found string"`, "JSON.NUMINCRBY", "num", ".s", "1")
	c.want(`-"ERR Path '$.nope' does not exist"`, "JSON.NUMINCRBY", "num", ".nope", "1")
	c.want(`-"ERR could not perform this operation on a key that doesn't exist"`, "JSON.NUMINCRBY", "missing", "$.i", "1")
	c.wantErr("ERR ", "JSON.NUMINCRBY", "num", "$.i", "x")
	c.wantErr("ERR ", "JSON.NUMINCRBY", "num", "$.i", `"1"`)
	c.want(`+"OK"`, "JSON.SET", "scalar", "$", "41")
	json(`42`, "JSON.NUMINCRBY", "scalar", ".", "1")
	json(`42`, "JSON.GET", "scalar")

	// JSON.DEL
	c.want(`:1`, "JSON.DEL", "doc", "$.a")
	c.want(`:0`, "JSON.DEL", "doc", "$.a")
	c.want(`:1`, "JSON.DEL", "doc", ".arr[1]")
	c.want(`:1`, "JSON.FORGET", "doc", "c.n")
	json(`{"b":1,"arr":[-7,"s",null,true],"e":"é<>&","c":{},"d":2}`, "JSON.GET", "doc")
	c.want(`:0`, "JSON.DEL", "missing")
	c.want(`:1`, "JSON.DEL", "doc")
	eq(t, "doc", n.DBs.Has("doc"), false)
	c.want(`:1`, "JSON.DEL", "num", "$")
	eq(t, "num", n.DBs.Has("num"), false)
	noGaps(t, w)

	// what is not modelled is a gap, never a silent answer
	c.want(`+"OK"`, "JSON.SET", "doc", "$", doc)
	for i, args := range [][]string{{"JSON.GET", "doc", "$..x"}, {"JSON.GET", "doc", "$.arr[*]"}, {"JSON.GET", "doc", "INDENT", " "},
		{"JSON.SET", "doc", "$.arr[0:1]", "1"}, {"JSON.DEL", "doc", "$.*"}, {"JSON.ARRAPPEND", "doc", "$.arr", "1"}} {
		if v := c.do(args...); !v.IsErr() || len(w.Gaps) != i+1 {
			t.Fatalf("%q: reply %s, gaps %q", args, v, w.Gaps)
		}
	}
}

func TestJSONAndOtherTypes(t *testing.T) {
	w, clk, n, c := single(t)
	c.want(`+"OK"`, "SET", "s", "str")
	c.want(`:1`, "HSET", "h", "f", "v")
	c.want(`+"OK"`, "JSON.SET", "j", "$", `{"a":1}`)
	c.want(`+"OK"`, "JSON.SET", "j2", ".", `{"a":[2]}`)
	for _, cmd := range [][]string{{"JSON.GET", "s"}, {"JSON.GET", "h", "$"}, {"JSON.SET", "s", "$", "1"}, {"JSON.DEL", "h"}, {"JSON.NUMINCRBY", "s", "$", "1"},
		{"JSON.MSET", "j", "$", "1", "s", "$", "2"}, {"GET", "j"}, {"HGET", "j", "a"}, {"INCR", "j"}, {"APPEND", "j", "x"}, {"LPUSH", "j", "x"}, {"BITFIELD", "j", "GET", "u1", "0"}, {"GETEX", "j"}} {
		c.want(errWT, cmd...)
	}
	c.want(`"{\"a\":1}"`, "JSON.GET", "j") // the failed JSON.MSET changed nothing
	c.want(`*["[1]" "[[2]]" nil nil nil]`, "JSON.MGET", "j", "j2", "missing", "s", "h", "$.a")
	c.want(`*["1" "[2]" nil]`, "JSON.MGET", "j", "j2", "s", ".a")
	c.want(`*["[]" nil]`, "JSON.MGET", "j", "missing", "$.zz")
	c.want(`*[nil]`, "JSON.MGET", "j", ".zz")
	c.want(`+"OK"`, "JSON.MSET", "j", "$.b", `"x"`, "j3", "$", `[1,{"k":"v"}]`)
	c.want(`*["{\"a\":1,\"b\":\"x\"}" "[1,{\"k\":\"v\"}]"]`, "JSON.MGET", "j", "j3", ".")
	c.want(`-"ERR new objects must be created at the root"`, "JSON.MSET", "j", "$.c", "1", "j4", "$.a", "1")
	c.want(`-"ERR wrong number of arguments for 'JSON.MSET' command"`, "JSON.MSET", "j", "$.c", "1", "j4")
	c.want(`"{\"a\":1,\"b\":\"x\"}"`, "JSON.GET", "j")
	// SET / DEL / RENAME / EXPIRE work on JSON keys like on any key
	c.want(`:1`, "PEXPIRE", "j", "100")
	c.want(`+"OK"`, "JSON.SET", "j", "$", `{"a":2}`)
	eq(t, "JSON.SET at the root keeps the expiry", expiryMs(n, "j"), testEpochMs+123+100)
	c.want(`+"OK"`, "RENAME", "j", "j5")
	c.want(`"[2]"`, "JSON.GET", "j5", "$.a")
	clk.advance(100 * time.Millisecond)
	c.want(`nil`, "JSON.GET", "j5")
	c.want(`+"OK"`, "SET", "j2", "now a string")
	c.want(`"now a string"`, "GET", "j2")
	c.want(`:1`, "DEL", "j3")
	noGaps(t, w)

	// client-side caching of JSON.GET, as the om and helper packages use it
	a := dial(t, w, "a:1", 1)
	a.do("HELLO", "3")
	a.do("CLIENT", "TRACKING", "ON")
	c.want(`+"OK"`, "JSON.SET", "cached", "$", `{"v":1}`)
	a.want(`"{\"v\":1}"`, "JSON.GET", "cached", ".")
	a.want(`*["[1]"]`, "JSON.MGET", "cached", "$.v")
	c.want(`"[2]"`, "JSON.NUMINCRBY", "cached", "$.v", "1")
	eq(t, "pushes", a.pushLog(), `>["invalidate" *["cached"]]`)
	a.want(`"{\"v\":2}"`, "JSON.GET", "cached")
	c.want(`nil`, "JSON.SET", "cached", "$.v", "3", "NX") // nothing changed: no invalidation
	eq(t, "pushes", a.pushLog(), `>["invalidate" *["cached"]]`)
	c.want(`:1`, "JSON.DEL", "cached", "$.v")
	if got := a.pushLog(); strings.Count(got, "cached") != 2 {
		t.Fatalf("pushes: %s", got)
	}
	noGaps(t, w)
	// RedisJSON 2.6 answers JSON.NUMINCRBY differently on RESP3 connections: not modelled, so flagged
	a.do("JSON.NUMINCRBY", "cached", "$.w", "1")
	eq(t, "gaps", len(w.Gaps), 1)
}
