// Package fakeredis is a deterministic, single-threaded model of the parts of
// Redis that the rueidis properties depend on. It is written against the
// Redis documentation and shares no code with rueidis. All methods must be
// called from one goroutine (the simulation scheduler).
package fakeredis

import (
	"fmt"
	"sort"
	"strconv"
	"strings"
	"time"

	"verifsim/resp"
)

// Exec is one command received by a node, with the reply it produced.
type Exec struct {
	Seq     int // global sequence number
	Conn    int // connection id
	ConnSeq int // per-connection sequence number
	Node    string
	Role    string // role of the node at that moment
	Argv    []string
	Reply   resp.Value
	NoReply bool // pub/sub style commands answer with pushes only
	Queued  bool // queued inside MULTI (Reply is +QUEUED)
	InExec  bool // executed as part of EXEC
	At      time.Time
	Step    int // scheduler step (set through World.Step)
	// session snapshot, for setup checks
	Sess Session
	// Sub holds, for EVAL/EVALSHA(_RO), one entry per redis.call / redis.pcall issued by the script body, in order
	// (Argv, Reply as the script saw it before conversion to Lua, Seq). Entries are not in World.Log.
	Sub []*Exec
	// ScriptRuns is 1 when a script body actually started executing for this command (0 for NOSCRIPT, numkeys
	// errors, compile errors and non-script commands).
	ScriptRuns int
}

// Session is the per-connection state that connection setup is meant to establish.
type Session struct {
	Proto     int
	User      string
	Authed    bool
	Name      string
	DB        int
	Tracking  bool
	TrackMode string // "", "OPTIN", "OPTOUT", "BCAST"
	Prefixes  []string
	NoLoop    bool
	ReadOnly  bool
	NoTouch   bool
	NoEvict   bool
	LibName   string
	LibVer    string
	Capa      []string
}

// Push records a push frame sent to a connection.
type Push struct {
	Seq   int
	Conn  int
	Kind  string
	Value resp.Value
	Step  int
	Keys  []string // invalidate: the keys (nil for a flush)
	Flush bool
}

// Seq returns the current global sequence number (commands, modifications and pushes share one counter).
func (w *World) Seq() int { return w.seq }

// World is a set of nodes sharing a clock.
type World struct {
	Now     func() time.Time
	Nodes   map[string]*Node
	order   []string
	Log     []*Exec
	Pushes  []*Push
	Step    int // set by the scheduler before each event
	seq     int
	connSeq int
	curExec *Exec

	// Intercept, when set, may answer a command instead of the model.
	// It runs after protocol-level state handling decisions are made by the
	// caller: return handled=false to let the model execute normally.
	Intercept func(sc *SrvConn, argv []string) (reply resp.Value, handled bool)

	// Gaps records commands or options the model does not implement. A non-empty
	// Gaps makes the run a harness error, never a verdict.
	Gaps []string

	// ProtoErrors records malformed client input (not an array of bulk strings).
	ProtoErrors []string

	// TagReads makes string replies of read commands self-describing (see tagRead).
	TagReads bool

	Cluster  *Cluster
	Sentinel *SentinelModel

	// ScriptReadsTrack makes read-only commands issued by a script remember their keys for the calling
	// connection's client-side-caching tracking (what Redis 7 does). Off by default: see script.go.
	ScriptReadsTrack bool

	script *scriptRun // the script currently executing, if any (scripts are atomic: at most one)
}

// NewWorld creates an empty world.
func NewWorld(now func() time.Time) *World {
	return &World{Now: now, Nodes: map[string]*Node{}}
}

// Node is one Redis server process.
type Node struct {
	Addr           string
	W              *World
	DBs            *Dataset // shared with replicas of the same shard
	Role           string   // "master" or "slave"
	MasterOf       string   // for replicas: address of the master
	Version        string
	Conns          []*SrvConn
	Scripts        map[string]string
	Users          map[string]string // user -> password ("default" for requirepass); empty = no auth
	NoHello        bool              // pretend to be a pre-6 server: HELLO is an unknown command
	Down           bool
	ClockOff       time.Duration // server clock offset
	RunID          string
	AZ             string
	Loading        int // number of upcoming commands to answer with -LOADING
	ClusterEnabled bool
	ReplState      string // replicas: link state reported by ROLE: "" (= "connected"), "connect", "connecting", "sync", "connected"
	ReplOffset     int64  // replication offset reported by ROLE / INFO / CLUSTER SHARDS; 0 = derived from the dataset's modification count
	ghost          *SrvConn
}

// AddNode adds a master node with its own dataset.
func (w *World) AddNode(addr string) *Node {
	n := &Node{Addr: addr, W: w, DBs: newDataset(), Role: "master", Version: "7.2.4", Scripts: map[string]string{}, Users: map[string]string{}, RunID: fmt.Sprintf("%040x", len(w.order)+1)}
	w.Nodes[addr] = n
	w.order = append(w.order, addr)
	return n
}

// AddReplica adds a replica sharing the master's dataset (instant replication).
func (w *World) AddReplica(addr, master string) *Node {
	n := w.AddNode(addr)
	n.Role = "slave"
	n.MasterOf = master
	n.DBs = w.Nodes[master].DBs
	n.Scripts = w.Nodes[master].Scripts
	return n
}

// NodeAddrs returns node addresses in creation order.
func (w *World) NodeAddrs() []string { return append([]string(nil), w.order...) }

func (w *World) gap(format string, a ...any) {
	w.Gaps = append(w.Gaps, fmt.Sprintf(format, a...))
}

func (n *Node) now() time.Time { return n.W.Now().Add(n.ClockOff) }

// SrvConn is the server end of a connection.
type SrvConn struct {
	ID   int
	Node *Node
	in   []byte
	Out  []byte // bytes waiting to be delivered to the client
	Sess Session

	Closed     bool
	asking     bool
	multi      bool
	multiDirty bool
	queued     [][]string
	watching   map[string]uint64
	watchDB    int
	caching    int // 0 none, 1 YES, -1 NO (applies to next command / transaction)
	subs       map[string]bool
	psubs      map[string]bool
	ssubs      map[string]bool
	subOrder   []string
	cmdSeq     int
	deferred   []resp.Value // pushes to append after the current command's reply
	inCommand  bool
	blocked    *blockedOp
	Cmds       []*Exec // commands received on this connection
	OutLog     []OutFrame
	Accepted   time.Time
	UserCmds   int
}

// OutFrame records one frame appended to a connection's output: either the reply to command ConnSeq or a push.
type OutFrame struct {
	Push    bool
	ConnSeq int
	Bytes   int
	Value   resp.Value
}

type blockedOp struct {
	argv     []string
	deadline time.Time // zero = forever
	exec     *Exec
}

// Accept creates the server end of a new connection to addr.
func (w *World) Accept(addr string, id int) *SrvConn {
	n := w.Nodes[addr]
	if n == nil {
		panic("fakeredis: accept on unknown node " + addr)
	}
	sc := &SrvConn{ID: id, Node: n, subs: map[string]bool{}, psubs: map[string]bool{}, ssubs: map[string]bool{}, Accepted: w.Now()}
	sc.Sess.Proto = 2
	if len(n.Users) == 0 {
		sc.Sess.Authed = true
		sc.Sess.User = "default"
	}
	n.Conns = append(n.Conns, sc)
	return sc
}

// CloseConn tears down the server side state of a connection (peer closed or reset).
func (w *World) CloseConn(sc *SrvConn) {
	if sc.Closed {
		return
	}
	sc.Closed = true
	sc.blocked = nil
	sc.Node.DBs.untrackConn(sc)
	for i, c := range sc.Node.Conns {
		if c == sc {
			sc.Node.Conns = append(sc.Node.Conns[:i], sc.Node.Conns[i+1:]...)
			break
		}
	}
}

// Feed hands bytes written by the client to the server. Complete commands are executed in order.
func (w *World) Feed(sc *SrvConn, data []byte) {
	if sc.Closed {
		return
	}
	sc.in = append(sc.in, data...)
	for len(sc.in) > 0 && !sc.Closed {
		if sc.blocked != nil {
			return // a blocked client does not process further commands
		}
		argv, n, err := resp.ParseCommand(sc.in)
		if err == resp.ErrIncomplete {
			return
		}
		if err != nil {
			w.ProtoErrors = append(w.ProtoErrors, fmt.Sprintf("conn %d: %v; input %q", sc.ID, err, truncate(string(sc.in), 80)))
			sc.appendReply(nil, resp.Err("ERR Protocol error: "+err.Error()))
			sc.in = nil
			return
		}
		sc.in = sc.in[n:]
		w.handle(sc, argv)
	}
	sc.Node.DBs.FlushBroadcast()
}

// Ghost executes a command on a node as another Redis client would, outside of
// any simulated connection (its own session: RESP3, db 0, authenticated).
func (w *World) Ghost(addr string, argv ...string) resp.Value {
	n := w.Nodes[addr]
	if n.ghost == nil {
		n.ghost = &SrvConn{ID: -1, Node: n, subs: map[string]bool{}, psubs: map[string]bool{}, ssubs: map[string]bool{}}
		n.ghost.Sess = Session{Proto: 3, Authed: true, User: "default"}
	}
	g := n.ghost
	g.Out = g.Out[:0]
	g.OutLog = g.OutLog[:0]
	before := len(g.Cmds)
	w.handle(g, argv)
	n.DBs.FlushBroadcast()
	if len(g.Cmds) > before {
		return g.Cmds[len(g.Cmds)-1].Reply
	}
	return resp.Value{}
}

// PendingInput reports bytes of an incomplete command buffered at the server.
func (sc *SrvConn) PendingInput() int { return len(sc.in) }

func truncate(s string, n int) string {
	if len(s) > n {
		return s[:n] + "..."
	}
	return s
}

func (sc *SrvConn) appendReply(e *Exec, v resp.Value) {
	before := len(sc.Out)
	sc.Out = resp.Encode(sc.Out, v, sc.Sess.Proto)
	seq := -1
	if e != nil {
		seq = e.ConnSeq
	}
	sc.OutLog = append(sc.OutLog, OutFrame{ConnSeq: seq, Bytes: len(sc.Out) - before, Value: v})
}

// push sends (or defers) a push frame to this connection.
func (sc *SrvConn) push(kind string, v resp.Value) {
	if sc.Closed {
		return
	}
	w := sc.Node.W
	w.seq++
	pu := &Push{Seq: w.seq, Conn: sc.ID, Kind: kind, Value: v, Step: w.Step}
	if kind == "invalidate" && len(v.A) == 2 {
		if v.A[1].T == '_' {
			pu.Flush = true
		} else {
			for _, k := range v.A[1].A {
				pu.Keys = append(pu.Keys, k.S)
			}
		}
	}
	w.Pushes = append(w.Pushes, pu)
	if sc.inCommand {
		sc.deferred = append(sc.deferred, v)
		return
	}
	sc.writePush(v)
}

func (sc *SrvConn) writePush(v resp.Value) {
	before := len(sc.Out)
	sc.Out = resp.Encode(sc.Out, v, sc.Sess.Proto)
	sc.OutLog = append(sc.OutLog, OutFrame{Push: true, ConnSeq: -1, Bytes: len(sc.Out) - before, Value: v})
}

func (sc *SrvConn) flushDeferred() {
	for _, v := range sc.deferred {
		sc.writePush(v)
	}
	sc.deferred = sc.deferred[:0]
}

func up(s string) string { return strings.ToUpper(s) }

// handle executes one command received on sc.
func (w *World) handle(sc *SrvConn, argv []string) {
	n := sc.Node
	w.seq++
	e := &Exec{Seq: w.seq, Conn: sc.ID, ConnSeq: sc.cmdSeq, Node: n.Addr, Role: n.Role, Argv: argv, At: w.Now(), Step: w.Step, Sess: sc.Sess}
	e.Sess.Prefixes = append([]string(nil), sc.Sess.Prefixes...)
	e.Sess.Capa = append([]string(nil), sc.Sess.Capa...)
	sc.cmdSeq++
	w.Log = append(w.Log, e)
	sc.Cmds = append(sc.Cmds, e)
	name := up(argv[0])

	finish := func(v resp.Value) {
		e.Reply = v
		sc.appendReply(e, v)
	}
	// Redis clears the ASKING flag after every command except ASKING itself, and keeps it
	// for the whole transaction when it was set before MULTI (ASKING, MULTI, ..., EXEC).
	defer func() {
		if name != "ASKING" && !sc.multi {
			sc.asking = false
		}
	}()

	if w.Intercept != nil {
		if v, ok := w.Intercept(sc, argv); ok {
			if sc.multi && v.IsErr() && name != "EXEC" && name != "DISCARD" && name != "MULTI" {
				sc.multiDirty = true
			}
			if name == "EXEC" || name == "DISCARD" {
				// an intercepted EXEC (e.g. EXECABORT) still ends the transaction
				sc.multi, sc.queued, sc.multiDirty, sc.watching = false, nil, false, nil
				sc.caching = 0
			}
			finish(v)
			return
		}
	}
	if n.Loading > 0 && name != "HELLO" && name != "AUTH" && name != "CLIENT" && name != "PING" {
		n.Loading--
		if sc.multi {
			sc.multiDirty = true
		}
		finish(resp.Err("LOADING Redis is loading the dataset in memory"))
		return
	}
	if !sc.Sess.Authed && name != "HELLO" && name != "AUTH" && name != "QUIT" {
		finish(resp.Err("NOAUTH Authentication required."))
		return
	}
	if v, rejected := w.Sentinel.rejects(sc, name, argv); rejected {
		finish(v) // a sentinel does not have the data commands
		return
	}
	spec, known := specs[name]
	if !known {
		w.gap("unknown command %q (argv %q)", name, argv)
		finish(resp.Err(fmt.Sprintf("ERR unknown command '%s', with args beginning with: ", argv[0])))
		return
	}
	if name == "HELLO" && n.NoHello {
		finish(resp.Err("ERR unknown command 'HELLO', with args beginning with: "))
		return
	}
	if spec.arity > 0 && len(argv) != spec.arity || spec.arity < 0 && len(argv) < -spec.arity {
		if sc.multi {
			sc.multiDirty = true
		}
		finish(resp.Err(fmt.Sprintf("ERR wrong number of arguments for '%s' command", strings.ToLower(name))))
		return
	}
	// RESP2 subscribed mode restrictions
	if sc.Sess.Proto == 2 && sc.subCount() > 0 {
		switch name {
		case "SUBSCRIBE", "UNSUBSCRIBE", "PSUBSCRIBE", "PUNSUBSCRIBE", "SSUBSCRIBE", "SUNSUBSCRIBE", "PING", "QUIT", "RESET":
		default:
			finish(resp.Err(fmt.Sprintf("ERR Can't execute '%s': only (P|S)SUBSCRIBE / (P|S)UNSUBSCRIBE / PING / QUIT / RESET are allowed in this context", strings.ToLower(name))))
			return
		}
	}
	// cluster redirection
	if w.Cluster != nil && n.ClusterEnabled {
		if v, redirected := w.Cluster.check(sc, name, spec, argv); redirected {
			if sc.multi {
				sc.multiDirty = true
			}
			finish(v)
			return
		}
	}
	// replica write protection (writes issued by scripts are refused in scriptHost.Call: handle only sees top-level commands)
	if n.Role == "slave" && spec.write {
		if sc.multi {
			sc.multiDirty = true
		}
		if hasCapa(sc, "redirect") && w.Cluster == nil {
			finish(resp.Err("REDIRECT " + n.MasterOf))
			return
		}
		finish(resp.Err("READONLY You can't write against a read only replica."))
		return
	}
	// transactions: queue everything except control commands
	if sc.multi {
		switch name {
		case "EXEC", "DISCARD", "MULTI", "WATCH", "QUIT", "RESET":
		default:
			if spec.noMulti {
				sc.multiDirty = true
				finish(resp.Err(fmt.Sprintf("ERR Command not allowed inside a transaction")))
				return
			}
			sc.queued = append(sc.queued, argv)
			e.Queued = true
			finish(resp.Simple("QUEUED"))
			return
		}
	}
	if spec.pubsub {
		e.NoReply = true
		sc.inCommand = true
		spec.fn(w, sc, e, argv)
		sc.inCommand = false
		sc.flushDeferred()
		return
	}
	sc.inCommand = true
	v, blocked := w.run(sc, e, spec, argv)
	if blocked {
		sc.inCommand = false
		sc.flushDeferred()
		return
	}
	finish(v)
	sc.inCommand = false
	sc.flushDeferred()
	if !isSessionCmd(name) {
		sc.UserCmds++
	}
}

func isSessionCmd(name string) bool {
	switch name {
	case "HELLO", "AUTH", "CLIENT", "SELECT", "READONLY", "READWRITE", "PING", "INFO":
		return true
	}
	return false
}

func hasCapa(sc *SrvConn, c string) bool {
	for _, x := range sc.Sess.Capa {
		if x == c {
			return true
		}
	}
	return false
}

// inScript reports whether this connection is currently executing a script body.
func (sc *SrvConn) inScript() bool { s := sc.Node.W.script; return s != nil && s.sc == sc }

func (sc *SrvConn) subCount() int { return len(sc.subs) + len(sc.psubs) + len(sc.ssubs) }

// run executes a (non-queued) command and applies the tracking rules around it.
func (w *World) run(sc *SrvConn, e *Exec, spec *cmdSpec, argv []string) (v resp.Value, blocked bool) {
	name := up(argv[0])
	db := sc.Node.DBs
	// lazily expire the keys the command touches
	keys := spec.keys(argv)
	for _, k := range keys {
		db.expireIfNeeded(w, sc, k)
	}
	w.curExec = e
	res := spec.fn(w, sc, e, argv)
	if res.blocked {
		return v, true
	}
	v = res.v
	// tracking of keys read by read-only commands
	if sc.Sess.Tracking && sc.Sess.TrackMode != "BCAST" && spec.readonly && !v.IsErr() {
		track := false
		switch sc.Sess.TrackMode {
		case "OPTIN":
			track = sc.caching == 1
		case "OPTOUT":
			track = sc.caching != -1
		default:
			track = true
		}
		if track {
			for _, k := range keys {
				db.trackKey(sc, k)
			}
		}
	}
	// CLIENT CACHING applies to the next command only, or to the whole transaction that follows.
	if !(name == "CLIENT" && len(argv) > 1 && up(argv[1]) == "CACHING") && !sc.multi && !e.InExec {
		sc.caching = 0
	}
	return v, false
}

type result struct {
	v       resp.Value
	blocked bool
}

func rv(v resp.Value) result { return result{v: v} }

type cmdSpec struct {
	arity    int // like Redis: positive exact, negative minimum
	first    int // first key index, 0 = none
	last     int // last key index, negative = from the end
	step     int
	write    bool
	readonly bool
	pubsub   bool
	noMulti  bool
	keyFn    func(argv []string) []string
	fn       func(w *World, sc *SrvConn, e *Exec, argv []string) result
}

func (s *cmdSpec) keys(argv []string) []string {
	if s.keyFn != nil {
		return s.keyFn(argv)
	}
	if s.first == 0 {
		return nil
	}
	last := s.last
	if last < 0 {
		last = len(argv) + last
	}
	var ks []string
	for i := s.first; i <= last && i < len(argv); i += s.step {
		ks = append(ks, argv[i])
	}
	return ks
}

var specs = map[string]*cmdSpec{}

func reg(name string, s *cmdSpec) {
	if s.step == 0 {
		s.step = 1
	}
	specs[name] = s
}

func errWrongType() resp.Value {
	return resp.Err("WRONGTYPE Operation against a key holding the wrong kind of value")
}
func errSyntax() resp.Value { return resp.Err("ERR syntax error") }
func errNotInt() resp.Value { return resp.Err("ERR value is not an integer or out of range") }

func atoi(s string) (int64, bool) {
	v, err := strconv.ParseInt(s, 10, 64)
	return v, err == nil
}

// Tick processes time-driven server behaviour: blocked-command timeouts and active expiry.
func (w *World) Tick() {
	for _, addr := range w.order {
		n := w.Nodes[addr]
		if n.Role == "master" {
			n.DBs.activeExpire(w, n)
		}
		for _, sc := range append([]*SrvConn(nil), n.Conns...) {
			if b := sc.blocked; b != nil && !b.deadline.IsZero() && !n.now().Before(b.deadline) {
				sc.blocked = nil
				v := resp.NullArr()
				if sc.Sess.Proto >= 3 {
					v = resp.Nil()
				}
				b.exec.Reply = v
				sc.appendReply(b.exec, v)
				// continue with buffered input
				w.Feed(sc, nil)
			}
		}
	}
}

// serveBlocked is called after a list push to wake blocked clients in FIFO order.
func (w *World) serveBlocked(n *Node) {
	if w.script != nil {
		// Redis serves blocked clients after the whole script has finished
		w.script.deferServe(n)
		return
	}
	again := true
	for again {
		again = false
		conns := allConnsOfDataset(w, n.DBs)
		sort.SliceStable(conns, func(i, j int) bool { return conns[i].blockedSince() < conns[j].blockedSince() })
		for _, sc := range conns {
			b := sc.blocked
			if b == nil {
				continue
			}
			spec := specs[up(b.argv[0])]
			sc.blocked = nil
			sc.inCommand = true
			res := spec.fn(w, sc, b.exec, b.argv)
			sc.inCommand = false
			if res.blocked {
				continue
			}
			b.exec.Reply = res.v
			sc.appendReply(b.exec, res.v)
			sc.flushDeferred()
			w.Feed(sc, nil)
			again = true
			break
		}
	}
}

func (sc *SrvConn) blockedSince() int {
	if sc.blocked == nil {
		return 1 << 60
	}
	return sc.blocked.exec.Seq
}

func allConnsOfDataset(w *World, d *Dataset) []*SrvConn {
	var out []*SrvConn
	for _, addr := range w.order {
		n := w.Nodes[addr]
		if n.DBs == d {
			out = append(out, n.Conns...)
		}
	}
	return out
}
