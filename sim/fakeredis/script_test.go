package fakeredis

import (
	"os"
	"regexp"
	"strconv"
	"strings"
	"testing"
	"time"

	"verifsim/lualite"
	"verifsim/resp"
)

// ---------------------------------------------------------------------------------------------------------------
// Test harness: drives the model the way the simulator does (bytes in, bytes out).

type testClock struct{ now time.Time }

func (c *testClock) Now() time.Time          { return c.now }
func (c *testClock) advance(d time.Duration) { c.now = c.now.Add(d) }

const testEpochMs = 1700000000000

func newTestWorld() (*World, *testClock) {
	clk := &testClock{now: time.Unix(testEpochMs/1000, 123456000)} // TIME reports 1700000000 123456
	return NewWorld(clk.Now), clk
}

// tconn is a client connection: do() sends one command and returns its reply as parsed from the wire; push frames
// received meanwhile (or earlier) accumulate in pushes.
type tconn struct {
	t      *testing.T
	w      *World
	sc     *SrvConn
	frames int // OutLog entries already consumed
	off    int // bytes of sc.Out already consumed
	pushes []resp.Value
}

func dial(t *testing.T, w *World, addr string, id int) *tconn {
	return &tconn{t: t, w: w, sc: w.Accept(addr, id)}
}

func encodeCmd(args ...string) []byte {
	return resp.Encode(nil, resp.Strs(args...), 2)
}

// drain parses the frames written since the last call; it returns the command replies among them.
func (c *tconn) drain() []resp.Value {
	c.t.Helper()
	var replies []resp.Value
	for ; c.frames < len(c.sc.OutLog); c.frames++ {
		f := c.sc.OutLog[c.frames]
		v, n, err := resp.ParseValue(c.sc.Out[c.off : c.off+f.Bytes])
		if err != nil || n != f.Bytes {
			c.t.Fatalf("conn %d: frame %d does not parse: %v (%q)", c.sc.ID, c.frames, err, c.sc.Out[c.off:c.off+f.Bytes])
		}
		c.off += f.Bytes
		if f.Push {
			c.pushes = append(c.pushes, v)
		} else {
			replies = append(replies, v)
		}
	}
	return replies
}

func (c *tconn) do(args ...string) resp.Value {
	c.t.Helper()
	c.drain()
	c.w.Feed(c.sc, encodeCmd(args...))
	r := c.drain()
	if len(r) != 1 {
		c.t.Fatalf("conn %d: %q produced %d replies", c.sc.ID, args, len(r))
	}
	return r[0]
}

// send feeds a command that is not expected to be answered right away (a blocking one).
func (c *tconn) send(args ...string) {
	c.t.Helper()
	c.drain()
	c.w.Feed(c.sc, encodeCmd(args...))
	if r := c.drain(); len(r) != 0 {
		c.t.Fatalf("conn %d: %q was answered at once: %v", c.sc.ID, args, r)
	}
}

// want checks the compact rendering (resp.Value.String) of the reply of a command.
func (c *tconn) want(want string, args ...string) {
	c.t.Helper()
	if got := c.do(args...).String(); got != want {
		c.t.Fatalf("%q\n got  %s\n want %s", args, got, want)
	}
}

// wantErr checks that the reply is an error starting with prefix.
func (c *tconn) wantErr(prefix string, args ...string) resp.Value {
	c.t.Helper()
	v := c.do(args...)
	if !v.IsErr() || !strings.HasPrefix(v.S, prefix) {
		c.t.Fatalf("%q\n got  %s\n want an error starting with %q", args, v, prefix)
	}
	return v
}

func (c *tconn) eval(script string, keys []string, args ...string) resp.Value {
	c.t.Helper()
	a := append([]string{"EVAL", script, strconv.Itoa(len(keys))}, keys...)
	return c.do(append(a, args...)...)
}

func (c *tconn) wantEval(want, script string, keys []string, args ...string) {
	c.t.Helper()
	if got := c.eval(script, keys, args...).String(); got != want {
		c.t.Fatalf("EVAL %q %q %q\n got  %s\n want %s\n sub-commands: %s", script, keys, args, got, want, c.subLog())
	}
}

func (c *tconn) lastExec() *Exec { return c.sc.Cmds[len(c.sc.Cmds)-1] }

// subLog renders the sub-commands of the last command.
func (c *tconn) subLog() string {
	var parts []string
	for _, s := range c.lastExec().Sub {
		parts = append(parts, strings.Join(s.Argv, " "))
	}
	return strings.Join(parts, " | ")
}

func (c *tconn) pushLog() string {
	c.drain()
	var parts []string
	for _, p := range c.pushes {
		parts = append(parts, p.String())
	}
	return strings.Join(parts, " ")
}

func noGaps(t *testing.T, w *World) {
	t.Helper()
	if len(w.Gaps) > 0 {
		t.Fatalf("unexpected harness gaps: %q", w.Gaps)
	}
}

func eq[T comparable](t *testing.T, what string, got, want T) {
	t.Helper()
	if got != want {
		t.Fatalf("%s = %v, want %v", what, got, want)
	}
}

func single(t *testing.T) (*World, *testClock, *Node, *tconn) {
	w, clk := newTestWorld()
	n := w.AddNode("a:1")
	return w, clk, n, dial(t, w, "a:1", 0)
}

func expiryMs(n *Node, key string) int64 {
	if at := n.DBs.ExpireAt(key); !at.IsZero() {
		return at.UnixMilli()
	}
	return 0
}

func str(n *Node, key string) string {
	s, _ := n.DBs.Lookup(key)
	return s
}

// ---------------------------------------------------------------------------------------------------------------

func TestEvalShaFlow(t *testing.T) {
	w, _, n, c := single(t)
	script := `return {KEYS[1], ARGV[1], #KEYS, #ARGV}`
	sha := sha1hex(script)
	eq(t, "sha1", sha1hex("return 1"), "e0e1f9fabfc9d4800c877a703b823ac0578ff8db")

	c.want(`-"NOSCRIPT No matching script. Please use EVAL."`, "EVALSHA", sha, "1", "k", "a")
	eq(t, "ScriptRuns after NOSCRIPT", c.lastExec().ScriptRuns, 0)
	c.want(`*[:0]`, "SCRIPT", "EXISTS", sha)
	c.want(`*["k" "a" :1 :1]`, "EVAL", script, "1", "k", "a")
	eq(t, "ScriptRuns after EVAL", c.lastExec().ScriptRuns, 1)
	c.want(`*["k" "a" :1 :2]`, "EVALSHA", sha, "1", "k", "a", "b") // EVAL cached the script
	c.want(`*["k" "a" :1 :1]`, "EVALSHA", strings.ToUpper(sha), "1", "k", "a")
	c.want(`*[:1 :0 :0]`, "SCRIPT", "EXISTS", sha, strings.ToUpper(sha), "ffff")
	c.want(`*["k" "a" :1 :1]`, "EVALSHA_RO", sha, "1", "k", "a")
	c.want(`*["k" "a" :1 :1]`, "EVAL_RO", script, "1", "k", "a")

	// SCRIPT LOAD / FLUSH
	c.want(`"e0e1f9fabfc9d4800c877a703b823ac0578ff8db"`, "SCRIPT", "LOAD", "return 1")
	c.want(`:1`, "EVALSHA", "e0e1f9fabfc9d4800c877a703b823ac0578ff8db", "0")
	c.want(`+"OK"`, "SCRIPT", "FLUSH")
	eq(t, "cached scripts", len(n.Scripts), 0)
	c.want(`-"NOSCRIPT No matching script. Please use EVAL."`, "EVALSHA", sha, "1", "k", "a")
	c.want(`+"OK"`, "SCRIPT", "FLUSH", "ASYNC")
	c.want(`-"ERR SCRIPT FLUSH only support SYNC|ASYNC option"`, "SCRIPT", "FLUSH", "NOW")
	c.want(`-"NOTBUSY No scripts in execution right now."`, "SCRIPT", "KILL")
	c.want(`-"ERR wrong number of arguments for 'script|load' command"`, "SCRIPT", "LOAD")

	// argument validation
	c.want(`-"NOSCRIPT No matching script. Please use EVAL."`, "EVALSHA", "abc", "x") // length check comes first
	c.want(`-"ERR value is not an integer or out of range"`, "EVAL", "return 1", "x")
	c.want(`-"ERR value is not an integer or out of range"`, "EVALSHA", sha, "1.5")
	c.want(`-"ERR Number of keys can't be greater than number of args"`, "EVAL", "return 1", "2", "k")
	c.want(`-"ERR Number of keys can't be negative"`, "EVAL", "return 1", "-1")
	c.want(`-"ERR wrong number of arguments for 'eval' command"`, "EVAL", "return 1")
	eq(t, "ScriptRuns after argument errors", c.lastExec().ScriptRuns, 0)

	// compile errors are not cached
	v := c.wantErr("ERR Error compiling script (new function): user_script:1:", "EVAL", "return +", "0")
	if !strings.Contains(v.S, "unexpected symbol") {
		t.Fatalf("compile error: %s", v)
	}
	c.wantErr("ERR Error compiling script (new function): user_script:1:", "SCRIPT", "LOAD", "return +")
	eq(t, "cached scripts", len(n.Scripts), 0)
	noGaps(t, w)

	// a node restart loses the cache: the map is looked up on every call
	c.want(`:1`, "EVAL", "return 1", "0")
	for k := range n.Scripts {
		delete(n.Scripts, k)
	}
	c.want(`-"NOSCRIPT No matching script. Please use EVAL."`, "EVALSHA", "e0e1f9fabfc9d4800c877a703b823ac0578ff8db", "0")
}

func TestEvalKeyExtraction(t *testing.T) {
	spec := specs["EVALSHA"]
	eq(t, "keys", strings.Join(spec.keys([]string{"EVALSHA", "x", "2", "k1", "k2", "a"}), ","), "k1,k2")
	eq(t, "keys", len(spec.keys([]string{"EVAL", "x", "0", "a"})), 0)
	eq(t, "keys", len(spec.keys([]string{"EVAL", "x", "5", "a"})), 0)
	eq(t, "keys", len(spec.keys([]string{"EVAL", "x", "zz", "a"})), 0)
	if specs["EVAL"].write || specs["EVAL"].readonly || !specs["EVAL_RO"].readonly || !specs["EVALSHA_RO"].readonly {
		t.Fatalf("command flags of the EVAL family")
	}
}

func TestScriptRedisToLua(t *testing.T) {
	w, _, _, c := single(t)
	c.want(`+"OK"`, "SET", "s", "hello")
	c.want(`+"OK"`, "SET", "n", "41")
	c.want(`:2`, "HSET", "h", "f1", "v1", "f2", "v2")
	c.want(`:2`, "SADD", "set", "b", "a")
	c.want(`:2`, "RPUSH", "l", "x", "y")

	c.wantEval(`*["number" :42]`, `local v = redis.call('INCR', KEYS[1]) return {type(v), v}`, []string{"n"})
	c.wantEval(`*["string" "hello"]`, `local v = redis.call('GET', 's') return {type(v), v}`, nil)
	c.wantEval(`*["boolean" :1]`, `local v = redis.call('GET', 'missing') return {type(v), v == false}`, nil)
	c.wantEval(`*["table" "OK"]`, `local v = redis.call('SET', 's2', 'x') return {type(v), v.ok}`, nil)
	c.wantEval(`+"OK"`, `return redis.call('SET', 's2', 'x')`, nil)
	c.wantEval(`+"PONG"`, `return redis.call('PING')`, nil)
	c.wantEval(`*["table" :2 "x" "y"]`, `local v = redis.call('LRANGE', 'l', 0, -1) return {type(v), #v, v[1], v[2]}`, nil)
	// RESP3-only shapes arrive as a RESP2 session sees them: the map of HGETALL is a flat array, a set an array
	c.wantEval(`*[:4 "f1" "v1" "f2" "v2"]`, `local v = redis.call('HGETALL', 'h') return {#v, v[1], v[2], v[3], v[4]}`, nil)
	c.wantEval(`*["a" "b"]`, `return redis.call('SMEMBERS', 'set')`, nil)
	c.wantEval(`*["v1" nil "v2"]`, `return redis.call('HMGET', 'h', 'f1', 'nope', 'f2')`, nil) // nested nil -> false -> nil
	c.wantEval(`*["boolean"]`, `return {type(redis.call('HMGET', 'h', 'nope')[1])}`, nil)
	// double -> bulk string, true/false -> 1/0, big number -> string, verbatim -> string without its prefix, map -> flat
	c.wantEval(`*["string" "1.15"]`, `local v = redis.call('VTAG', 'u', 'd') return {type(v), v}`, nil)
	c.wantEval(`*[:1 :0]`, `return redis.call('VTAG', 'u', '[tf]')`, nil)
	c.wantEval(`*["string" "u#1"]`, `local v = redis.call('VTAG', 'u', 'v') return {type(v), v}`, nil)
	c.wantEval(`*["string"]`, `return {type(redis.call('VTAG', 'u', 'g'))}`, nil)
	c.wantEval(`:4`, `return #redis.call('VTAG', 'u', '{bibi}')`, nil)
	// an error nested in an array does not raise: it is a table with an err field
	c.wantEval(`*["table" "ERR u#1"]`, `local v = redis.call('VTAG', 'u', '[e]') return {type(v[1]), v[1].err}`, nil)
	// integers beyond 2^53 lose precision like in Lua
	c.want(`+"OK"`, "SET", "big", "9007199254740993")
	c.wantEval(`:9007199254740994`, `return redis.call('INCRBY', 'big', 0) + 2`, nil)
	// number arguments: integers in %d form, others with 17 significant digits
	c.wantEval(`*["3" "2.5" "1e+100"]`, `redis.call('RPUSH', KEYS[1], 3, 10 / 4, 1e100) return redis.call('LRANGE', KEYS[1], 0, -1)`, []string{"args"})
	noGaps(t, w)
}

func TestScriptLuaToRedis(t *testing.T) {
	for _, proto := range []string{"2", "3"} {
		w, _, _, c := single(t)
		null := "nil"
		if proto == "3" {
			c.do("HELLO", "3")
		}
		c.wantEval(`:3`, `return 3.99`, nil)
		c.wantEval(`:-3`, `return -3.99`, nil)
		c.wantEval(`"3.99"`, `return '3.99'`, nil)
		c.wantEval(`""`, `return ''`, nil)
		c.wantEval(`:1`, `return true`, nil)
		c.wantEval(null, `return false`, nil)
		c.wantEval(null, `return nil`, nil)
		c.wantEval(null, `local x = 1`, nil)
		c.wantEval(`+"FINE"`, `return {ok='FINE'}`, nil)
		c.wantEval(`+"FINE"`, `return redis.status_reply('FINE')`, nil)
		c.wantEval(`-"MYCODE details"`, `return {err='MYCODE details'}`, nil)
		c.wantEval(`-"MYCODE details"`, `return redis.error_reply('MYCODE details')`, nil)
		c.wantEval(`*[]`, `return {}`, nil)
		c.wantEval(`*[:1 :2]`, `return {1, 2, nil, 4}`, nil) // stops at the first nil
		c.wantEval(`*[]`, `return {a=1, b=2}`, nil)          // only the array part
		c.wantEval(`*[:1 "two" *[:3 nil :1 *[]] +"S"]`, `return {1, 'two', {3.7, false, true, {}}, {ok='S'}}`, nil)
		c.wantEval(`*[:1 -"E x"]`, `return {1, {err='E x'}}`, nil)
		c.wantEval(null, `return function() end`, nil)
		if proto == "3" {
			c.wantEval(`,"3.5"`, `return {double=3.5}`, nil)
		} else {
			c.wantEval(`"3.5"`, `return {double=3.5}`, nil)
		}
		noGaps(t, w)
	}
	// on the wire, RESP2 and RESP3 sessions differ only in the null
	w, _, _, c := single(t)
	c.eval(`return {false, true}`, nil)
	eq(t, "RESP2 wire", string(c.sc.Out[len(c.sc.Out)-13:]), "*2\r\n$-1\r\n:1\r\n")
	c.do("HELLO", "3")
	c.eval(`return {false, true}`, nil)
	eq(t, "RESP3 wire", string(c.sc.Out[len(c.sc.Out)-11:]), "*2\r\n_\r\n:1\r\n")
	noGaps(t, w)
}

func TestScriptErrors(t *testing.T) {
	w, _, n, c := single(t)
	c.want(`:1`, "HSET", "h", "f", "v")
	const wrongType = "WRONGTYPE Operation against a key holding the wrong kind of value"

	// a failed redis.call aborts the script with the error of the command, code included; earlier effects stay
	script := "redis.call('SET', 'a', '1')\nredis.call('GET', 'h')\nreturn 1"
	v := c.wantErr(wrongType, "EVAL", script, "0")
	eq(t, "full error", v.S, wrongType+" script: "+sha1hex(script)+", on @user_script:2.")
	eq(t, "a", str(n, "a"), "1")
	eq(t, "sub-commands", c.subLog(), "SET a 1 | GET h")
	eq(t, "sub reply", c.lastExec().Sub[1].Reply.String(), `-"`+wrongType+`"`)

	// redis.pcall returns the error as a table; returning it replies with exactly that error
	c.wantEval(`-"`+wrongType+`"`, `return redis.pcall('GET', 'h')`, nil)
	c.wantEval(`*["caught" "`+wrongType+`"]`, `local r = redis.pcall('GET', 'h') if r.err then return {'caught', r.err} end return r`, nil)
	c.wantEval(`*[nil "table" "`+wrongType+`"]`, `local ok, e = pcall(redis.call, 'GET', 'h') return {ok, type(e), e.err}`, nil)

	// errors raised by the script itself get the generic code
	v = c.wantErr("ERR user_script:1: boom script: ", "EVAL", `error('boom')`, "0")
	if !strings.HasSuffix(v.S, ", on @user_script:1.") {
		t.Fatalf("error trailer: %s", v)
	}
	c.wantErr("ERR user_script:2: Script attempted to access nonexistent global variable 'nope'", "EVAL", "local a = 1\nreturn nope", "0")
	c.wantErr("ERR user_script:1: attempt to perform arithmetic on a nil value", "EVAL", "return 1 + nil", "0")
	c.wantErr("MYERR custom script: ", "EVAL", "error({err='MYERR custom'})", "0")

	// script-specific refusals
	c.wantErr("ERR Wrong number of args calling Redis command from script", "EVAL", `return redis.call('GET')`, "0")
	c.wantErr("ERR Wrong number of args calling Redis command from script", "EVAL", `return redis.call('GET', 'a', 'b')`, "0")
	noGaps(t, w)
	c.wantErr("ERR Unknown Redis command called from script", "EVAL", `return redis.call('NOSUCHCMD', 'a')`, "0")
	eq(t, "gaps", len(w.Gaps), 1) // a command the model lacks is flagged, inside scripts too
	w.Gaps = nil
	for _, cmd := range []string{`'MULTI'`, `'EXEC'`, `'DISCARD'`, `'WATCH', 'k'`, `'UNWATCH'`, `'SUBSCRIBE', 'ch'`, `'PSUBSCRIBE', 'ch'`, `'SSUBSCRIBE', 'ch'`,
		`'UNSUBSCRIBE'`, `'CLIENT', 'ID'`, `'CLIENT', 'TRACKING', 'ON'`, `'HELLO', '3'`, `'AUTH', 'x'`, `'EVAL', 'return 1', '0'`, `'EVALSHA', 'x', '0'`,
		`'SCRIPT', 'FLUSH'`, `'QUIT'`, `'ROLE'`} {
		c.wantErr("ERR This Redis command is not allowed from script", "EVAL", `return redis.call(`+cmd+`)`, "0")
	}
	c.wantEval(`-"ERR This Redis command is not allowed from script"`, `return redis.pcall('MULTI')`, nil)
	c.wantErr("ERR Please specify at least one argument for this redis lib call", "EVAL", `return redis.call()`, "0")
	c.wantErr("ERR Lua redis lib command arguments must be strings or integers", "EVAL", `return redis.call('SET', 'a', {})`, "0")
	// commands that scripts may call although they are not data commands
	c.wantEval(`:3`, `return redis.call('PUBLISH', 'ch', 'm') + 3`, nil)
	c.wantEval(`"x"`, `return redis.call('ECHO', 'x')`, nil)
	eq(t, "connection state", c.sc.multi || c.sc.subCount() > 0, false)
	noGaps(t, w)

	// things lualite does not support are harness gaps, not verdicts
	c.wantErr("ERR harness gap", "EVAL", `return cjson.encode({})`, "0")
	eq(t, "gaps", len(w.Gaps), 1)
}

func TestScriptSelectDoesNotLeak(t *testing.T) {
	w, _, n, c := single(t)
	c.wantEval(`+"OK"`, `redis.call('SELECT', 1) return redis.call('SET', 'k', 'in-db-1')`, nil)
	eq(t, "db after script", c.sc.Sess.DB, 0)
	c.want(`nil`, "GET", "k")
	c.want(`+"OK"`, "SELECT", "1")
	c.want(`"in-db-1"`, "GET", "k")
	eq(t, "db 0", n.DBs.Has("k"), false)
	noGaps(t, w)
}

func TestScriptReadOnlyAndReplicas(t *testing.T) {
	w, _, n, c := single(t)
	w.AddReplica("a:2", "a:1")
	r := dial(t, w, "a:2", 1)
	c.want(`+"OK"`, "SET", "k", "v")
	c.want(`:0`, "SETBIT", "bits", "7", "1")

	const roErr = "ERR Write commands are not allowed from read-only scripts."
	write := `return redis.call('SET', KEYS[1], 'w')`
	c.wantErr(roErr, "EVAL_RO", write, "1", "k")
	c.wantErr(roErr, "EVALSHA_RO", sha1hex(write), "1", "k") // EVAL_RO cached it although it failed
	eq(t, "k", str(n, "k"), "v")
	c.want(`"v"`, "EVAL_RO", `return redis.call('GET', KEYS[1])`, "1", "k")
	c.want(`-"`+roErr+`"`, "EVAL_RO", `return redis.pcall('DEL', KEYS[1])`, "1", "k")
	// BITFIELD is a write command even with GET only: read-only scripts need BITFIELD_RO
	c.wantErr(roErr, "EVAL_RO", `return redis.call('BITFIELD', KEYS[1], 'GET', 'u1', 7)`, "1", "bits")
	c.want(`*[:1]`, "EVAL_RO", `return redis.call('BITFIELD_RO', KEYS[1], 'GET', 'u1', 7)`, "1", "bits")
	// blocking commands are write commands too
	c.wantErr(roErr, "EVAL_RO", `return redis.call('BLPOP', 'l', 0)`, "0")

	// replicas: reads are served, writes are refused, from scripts as from the top level
	const replErr = "READONLY You can't write against a read only replica."
	r.want(`"v"`, "EVAL", `return redis.call('GET', KEYS[1])`, "1", "k")
	eq(t, "inScript after the script", r.sc.inScript(), false)
	r.wantErr(replErr, "EVAL", write, "1", "k")
	r.wantErr(replErr, "EVALSHA", sha1hex(write), "1", "k") // the cache is shared with the master
	r.want(`-"`+replErr+`"`, "EVAL", `return redis.pcall('SET', KEYS[1], 'w')`, "1", "k")
	r.wantErr(roErr, "EVAL_RO", write, "1", "k") // the read-only check comes first
	r.wantErr(replErr, "SET", "k", "w")
	r.want(`+"OK"`, "MULTI")
	r.want(`+"QUEUED"`, "EVAL", write, "1", "k")
	v := r.do("EXEC")
	if len(v.A) != 1 || !strings.HasPrefix(v.A[0].S, replErr) {
		t.Fatalf("EXEC on a replica: %s", v)
	}
	eq(t, "k", str(n, "k"), "v")
	noGaps(t, w)
}

func TestScriptInvalidation(t *testing.T) {
	w, _, n, _ := single(t)
	a, b := dial(t, w, "a:1", 1), dial(t, w, "a:1", 2)
	a.do("HELLO", "3")
	a.want(`+"OK"`, "CLIENT", "TRACKING", "ON")
	b.want(`+"OK"`, "SET", "k", "v0")
	b.want(`+"OK"`, "SET", "other", "x")
	a.want(`"v0"`, "GET", "k")
	if !n.DBs.TrackedBy("k", 1) {
		t.Fatalf("conn 1 must be remembered as a reader of k")
	}
	eq(t, "pushes before", a.pushLog(), "")
	b.wantEval(`+"OK"`, `redis.call('SET', 'other', 'y') return redis.call('SET', KEYS[1], ARGV[1])`, []string{"k"}, "v1")
	eq(t, "pushes", a.pushLog(), `>["invalidate" *["k"]]`)
	if n.DBs.TrackedBy("k", 1) {
		t.Fatalf("the invalidation forgets the reader")
	}
	// the modification is attributed to the writer connection, like a direct write
	last := n.DBs.Mods[len(n.DBs.Mods)-1]
	eq(t, "mod key", last.Key, "k")
	eq(t, "mod conn", last.Conn, 2)

	// reads done by a script do not track by default
	a.pushes = nil
	a.wantEval(`"v1"`, `return redis.call('GET', KEYS[1])`, []string{"k"})
	if n.DBs.TrackedBy("k", 1) {
		t.Fatalf("a read inside a script must not track the key")
	}
	b.want(`+"OK"`, "SET", "k", "v2")
	eq(t, "pushes", a.pushLog(), "")
	// EVAL_RO is a read-only command: its declared keys are tracked like those of GET
	a.want(`"x"`, "EVAL_RO", `return 'x'`, "1", "k")
	if !n.DBs.TrackedBy("k", 1) {
		t.Fatalf("EVAL_RO must track its declared keys")
	}
	b.want(`:1`, "DEL", "k")
	eq(t, "pushes", a.pushLog(), `>["invalidate" *["k"]]`)

	// a script invalidating a key its own connection tracks: the push follows the reply
	a.pushes = nil
	b.want(`+"OK"`, "SET", "k", "v3")
	a.want(`"v3"`, "GET", "k")
	a.wantEval(`:7`, `redis.call('SET', KEYS[1], 'mine') return 7`, []string{"k"})
	eq(t, "pushes", a.pushLog(), `>["invalidate" *["k"]]`)
	frames := a.sc.OutLog[len(a.sc.OutLog)-2:]
	if frames[0].Push || !frames[1].Push {
		t.Fatalf("the reply must precede the push")
	}

	// opt-in to Redis 7's behaviour: keys read by the script are remembered for the caller
	w.ScriptReadsTrack = true
	a.pushes = nil
	a.wantEval(`"mine"`, `return redis.call('GET', KEYS[1])`, []string{"k"})
	if !n.DBs.TrackedBy("k", 1) {
		t.Fatalf("ScriptReadsTrack: the read must be tracked")
	}
	b.wantEval(`:1`, `return redis.call('DEL', KEYS[1])`, []string{"k"})
	eq(t, "pushes", a.pushLog(), `>["invalidate" *["k"]]`)
	noGaps(t, w)
}

func TestScriptBcastInvalidation(t *testing.T) {
	w, _, _, _ := single(t)
	a, b := dial(t, w, "a:1", 1), dial(t, w, "a:1", 2)
	a.do("HELLO", "3")
	a.want(`+"OK"`, "CLIENT", "TRACKING", "ON", "BCAST", "PREFIX", "p:")
	b.wantEval(`:1`, `redis.call('SET', 'p:1', 'a') redis.call('SET', 'q:1', 'a') redis.call('SET', 'p:2', 'a') return 1`, nil)
	eq(t, "pushes", a.pushLog(), `>["invalidate" *["p:1" "p:2"]]`)
	noGaps(t, w)
}

func TestScriptInMultiAndWatch(t *testing.T) {
	w, _, n, c := single(t)
	other := dial(t, w, "a:1", 1)
	c.want(`+"OK"`, "MULTI")
	c.want(`+"QUEUED"`, "SET", "k", "1")
	c.want(`+"QUEUED"`, "EVAL", `return redis.call('INCRBY', KEYS[1], ARGV[1])`, "1", "k", "41")
	c.want(`+"QUEUED"`, "EVALSHA", "ffffffffffffffffffffffffffffffffffffffff", "0")
	eq(t, "queued", c.lastExec().ScriptRuns, 0)
	c.want(`*[+"OK" :42 -"NOSCRIPT No matching script. Please use EVAL."]`, "EXEC")
	eq(t, "k", str(n, "k"), "42")
	// the script body is recorded on the Exec of the queued command as executed by EXEC
	var ran *Exec
	for _, e := range w.Log {
		if e.InExec && e.Argv[0] == "EVAL" {
			ran = e
		}
	}
	if ran == nil || ran.ScriptRuns != 1 || len(ran.Sub) != 1 || !ran.Sub[0].InExec || strings.Join(ran.Sub[0].Argv, " ") != "INCRBY k 41" {
		t.Fatalf("Exec of the script inside EXEC: %+v", ran)
	}

	// a script write dirties the WATCH of another connection
	c.want(`+"OK"`, "WATCH", "k")
	other.wantEval(`:43`, `return redis.call('INCR', KEYS[1])`, []string{"k"})
	c.want(`+"OK"`, "MULTI")
	c.want(`+"QUEUED"`, "GET", "k")
	c.want(`nil*`, "EXEC")
	// and a script that only reads does not
	c.want(`+"OK"`, "WATCH", "k")
	other.wantEval(`"43"`, `return redis.call('GET', KEYS[1])`, []string{"k"})
	c.want(`+"OK"`, "MULTI")
	c.want(`+"QUEUED"`, "GET", "k")
	c.want(`*["43"]`, "EXEC")
	noGaps(t, w)
}

func TestScriptExpiryWithSimulatedClock(t *testing.T) {
	w, clk, n, c := single(t)
	c.wantEval(`+"OK"`, `return redis.call('SET', KEYS[1], 'v', 'PX', ARGV[1])`, []string{"k"}, "1000")
	eq(t, "expiry", expiryMs(n, "k"), testEpochMs+123+1000)
	clk.advance(999 * time.Millisecond)
	c.wantEval(`*["v" :1]`, `return {redis.call('GET', KEYS[1]), redis.call('PTTL', KEYS[1])}`, []string{"k"})
	clk.advance(time.Millisecond)
	mods := len(n.DBs.Mods)
	// the key named only inside the script body is expired lazily by the sub-command that touches it
	c.wantEval(`*[nil :-2 :0]`, `return {redis.call('GET', 'k'), redis.call('PTTL', 'k'), redis.call('EXISTS', 'k')}`, nil)
	eq(t, "expiry recorded", len(n.DBs.Mods), mods+1)
	eq(t, "expiry writer", n.DBs.Mods[mods].Conn, -1)
	// TIME is the node's simulated clock, offset included
	c.wantEval(`*["1700000001" "123456"]`, `return redis.call('TIME')`, nil)
	n.ClockOff = 2*time.Second + 5*time.Microsecond
	c.wantEval(`*["1700000003" "123461"]`, `return redis.call('TIME')`, nil)
	noGaps(t, w)
}

func TestScriptBlockingCommands(t *testing.T) {
	w, _, n, c := single(t)
	// a blocking pop on an empty list returns at once, as after a timeout
	c.wantEval(`*["boolean" :1]`, `local v = redis.call('BLPOP', 'l', 0) return {type(v), v == false}`, nil)
	if c.sc.blocked != nil {
		t.Fatalf("the connection must not stay blocked")
	}
	c.want(`:1`, "RPUSH", "l", "x")
	c.wantEval(`*["l" "x"]`, `return redis.call('BLPOP', 'l', 0)`, nil)

	// a waiter is served after the whole script: the script still sees its own element
	waiter := dial(t, w, "a:1", 1)
	waiter.send("BLPOP", "l", "0")
	c.wantEval(`*[:2 :2]`, `redis.call('LPUSH', 'l', 'a') return {redis.call('LPUSH', 'l', 'b'), redis.call('LLEN', 'l')}`, nil)
	r := waiter.drain()
	if len(r) != 1 || r[0].String() != `*["l" "b"]` {
		t.Fatalf("waiter: %v", r)
	}
	eq(t, "rest", strings.Join(n.DBs.ListOf("l"), ","), "a")
	noGaps(t, w)
}

func TestScriptSubCommandsAreRecordedUntagged(t *testing.T) {
	w, _, _, c := single(t)
	w.TagReads = true
	c.want(`+"OK"`, "SET", "k", "v")
	if v := c.do("GET", "k"); !strings.HasSuffix(v.S, "\x1fv") || !strings.HasPrefix(v.S, "GET k\x1f") {
		t.Fatalf("top-level reads are tagged: %s", v)
	}
	seq := w.Seq()
	c.wantEval(`*["v" "v" *["v"] :1]`, `local v = redis.call('GET', KEYS[1]) return {v, redis.call('GETRANGE', KEYS[1], 0, -1), redis.call('MGET', KEYS[1]), #v}`, []string{"k"})
	e := c.lastExec()
	eq(t, "subs", len(e.Sub), 3)
	eq(t, "sub argv", strings.Join(e.Sub[0].Argv, " "), "GET k")
	eq(t, "sub reply", e.Sub[0].Reply.String(), `"v"`)
	if !(e.Seq > seq && e.Sub[0].Seq > e.Seq && e.Sub[1].Seq > e.Sub[0].Seq) {
		t.Fatalf("sequence numbers: %d %d %d %d", seq, e.Seq, e.Sub[0].Seq, e.Sub[1].Seq)
	}
	eq(t, "sub conn", e.Sub[0].Conn, c.sc.ID)
	for _, l := range w.Log {
		if l == e.Sub[0] {
			t.Fatalf("sub-commands are not part of World.Log")
		}
	}
	if v := c.do("GET", "k"); !strings.HasSuffix(v.S, "\x1fv") || !strings.HasPrefix(v.S, "GET k\x1f") {
		t.Fatalf("tagging is back after the script: %s", v)
	}
	noGaps(t, w)
}

// ---------------------------------------------------------------------------------------------------------------
// The real scripts of the add-on modules, extracted from the library sources at test time and run through EVAL.

var repoScriptRe = regexp.MustCompile("(\\w+)\\s*=\\s*(?:rueidis\\.NewLuaScript\\w*\\()?`([^`]*)`")

func repoScripts(t *testing.T, file string, names ...string) map[string]string {
	t.Helper()
	src, err := os.ReadFile(file)
	if err != nil {
		t.Fatalf("cannot read the library source: %v", err)
	}
	all := map[string]string{}
	for _, m := range repoScriptRe.FindAllStringSubmatch(string(src), -1) {
		all[m[1]] = m[2]
	}
	out := map[string]string{}
	for _, name := range names {
		text, ok := all[name]
		if !ok || !strings.Contains(text, "redis.call") {
			t.Fatalf("%s: script %s not found (extraction out of date?)", file, name)
		}
		out[name] = text
	}
	return out
}

func ms(v int64) string { return strconv.FormatInt(v, 10) }

func TestRepoLockScripts(t *testing.T) {
	s := repoScripts(t, "/repo/rueidislock/lock.go", "delkey", "extend", "acqms", "acqat", "fcqms", "fcqat")
	w, clk, n, c := single(t)
	watcher := dial(t, w, "a:1", 1)
	watcher.do("HELLO", "3")
	watcher.do("CLIENT", "TRACKING", "ON")
	k := []string{"lk"}
	now := int64(testEpochMs + 123)

	c.wantEval(`+"OK"`, s["acqms"], k, "id1", "1000")
	eq(t, "commands", c.subLog(), "SET lk id1 NX PX 1000 | GET lk")
	eq(t, "expiry", expiryMs(n, "lk"), now+1000)
	c.wantEval(`nil`, s["acqms"], k, "id2", "1000") // NX fails: nil reply -> false -> nil
	eq(t, "owner", str(n, "lk"), "id1")
	c.wantEval(`nil`, s["acqat"], k, "id2", ms(now+9999))
	c.wantEval(`:0`, s["extend"], k, "id2", ms(now+5000))
	watcher.want(`"id1"`, "GET", "lk") // a waiter watches the lock through client-side caching
	c.wantEval(`:1`, s["extend"], k, "id1", ms(now+5000))
	eq(t, "expiry", expiryMs(n, "lk"), now+5000)
	eq(t, "extend invalidates", watcher.pushLog(), `>["invalidate" *["lk"]]`)
	c.wantEval(`+"OK"`, s["fcqms"], k, "id3", "250")
	eq(t, "owner", str(n, "lk"), "id3")
	eq(t, "expiry", expiryMs(n, "lk"), now+250)
	c.wantEval(`+"OK"`, s["fcqat"], k, "id4", ms(now+7777))
	eq(t, "expiry", expiryMs(n, "lk"), now+7777)
	c.wantEval(`:0`, s["delkey"], k, "id3")
	watcher.pushes = nil
	watcher.want(`"id4"`, "GET", "lk")
	c.wantEval(`:1`, s["delkey"], k, "id4")
	eq(t, "exists", n.DBs.Has("lk"), false)
	eq(t, "release invalidates", watcher.pushLog(), `>["invalidate" *["lk"]]`)
	c.wantEval(`+"OK"`, s["acqat"], k, "id5", ms(now+9999))
	eq(t, "expiry", expiryMs(n, "lk"), now+9999)
	// the lock expires by itself: the next contender gets it, the old owner cannot extend or release it
	clk.advance(9999 * time.Millisecond)
	c.wantEval(`+"OK"`, s["acqms"], k, "id6", "100")
	c.wantEval(`:0`, s["extend"], k, "id5", ms(now+99999))
	c.wantEval(`:0`, s["delkey"], k, "id5")
	eq(t, "owner", str(n, "lk"), "id6")
	// EVALSHA path, as the client uses it
	c.want(`:1`, "EVALSHA", sha1hex(s["delkey"]), "1", "lk", "id6")
	c.wantEval(`:0`, s["extend"], []string{"missing"}, "id1", "1")
	noGaps(t, w)
}

func TestRepoAsideScripts(t *testing.T) {
	s := repoScripts(t, "/repo/rueidisaside/aside.go", "delkey", "setkey", "acquireLock")
	w, _, n, c := single(t)
	k := []string{"ck"}
	now := int64(testEpochMs + 123)
	c.wantEval(`nil`, s["acquireLock"], k, "lock-a", "500") // acquired: returns nil
	eq(t, "value", str(n, "ck"), "lock-a")
	eq(t, "expiry", expiryMs(n, "ck"), now+500)
	c.wantEval(`"lock-a"`, s["acquireLock"], k, "lock-b", "500") // held: returns the holder
	c.wantEval(`:0`, s["setkey"], k, "lock-b", "val", "9000")
	c.wantEval(`+"OK"`, s["setkey"], k, "lock-a", "val", "9000")
	eq(t, "commands", c.subLog(), "GET ck | SET ck val PX 9000")
	eq(t, "expiry", expiryMs(n, "ck"), now+9000)
	c.wantEval(`:0`, s["delkey"], k, "lock-a")
	c.wantEval(`:1`, s["delkey"], k, "val")
	eq(t, "exists", n.DBs.Has("ck"), false)
	// the non-script part of the protocol: SET NX GET PX returns the current holder or nil
	c.want(`nil`, "SET", "ck", "id-1", "NX", "GET", "PX", "500")
	c.want(`"id-1"`, "SET", "ck", "id-2", "NX", "GET", "PX", "500")
	eq(t, "value", str(n, "ck"), "id-1")
	noGaps(t, w)
}

func TestRepoRateLimitScript(t *testing.T) {
	s := repoScripts(t, "/repo/rueidislimiter/limiter.go", "rateLimitScript")["rateLimitScript"]
	w, clk, n, c := single(t)
	k := []string{"rl", "rl:exp"}
	now := int64(testEpochMs + 123)
	// ARGV: increment, next_expires_at, current_time
	c.wantEval(`*[:1 :`+ms(now+5000)+`]`, s, k, "1", ms(now+5000), ms(now))
	eq(t, "commands", c.subLog(), "get rl:exp | set rl 0 pxat "+ms(now+6000)+" | set rl:exp "+ms(now+5000)+" pxat "+ms(now+6000)+" | incrby rl 1")
	eq(t, "expiry", expiryMs(n, "rl"), now+6000)
	eq(t, "expiry", expiryMs(n, "rl:exp"), now+6000)
	clk.advance(1000 * time.Millisecond)
	c.wantEval(`*[:3 :`+ms(now+5000)+`]`, s, k, "2", ms(now+9000), ms(now+1000)) // window still open: only increments
	eq(t, "expiry kept by INCRBY", expiryMs(n, "rl"), now+6000)
	clk.advance(4000 * time.Millisecond)
	c.wantEval(`*[:3 :`+ms(now+5000)+`]`, s, k, "0", ms(now+9000), ms(now+5000)) // expires_at == current_time is not expired
	clk.advance(time.Millisecond)
	c.wantEval(`*[:1 :`+ms(now+10001)+`]`, s, k, "1", ms(now+10001), ms(now+5001)) // expired: reset
	eq(t, "expiry", expiryMs(n, "rl:exp"), now+11001)
	eq(t, "count", str(n, "rl"), "1")
	// both keys vanish with the PXAT expiry, a new window starts from scratch
	clk.advance(6000 * time.Millisecond)
	c.wantEval(`*[:5 :`+ms(now+20000)+`]`, s, k, "5", ms(now+20000), ms(now+11001))
	eq(t, "first command saw the expired key", c.lastExec().Sub[0].Reply.String(), "nil")
	noGaps(t, w)
}

func TestRepoHashSaveScript(t *testing.T) {
	s := repoScripts(t, "/repo/om/hash.go", "hashSaveScript")["hashSaveScript"]
	w, _, n, c := single(t)
	k := []string{"h:1"}
	// ARGV[1] == '': no version check, returns ARGV[2]
	c.wantEval(`"x"`, s, k, "", "x", "f1", "v1")
	eq(t, "commands", c.subLog(), "HSET h:1  x f1 v1")
	c.wantEval(`"x"`, s, k, "", "x", "f1", "v2", "1700000099999") // odd count: the last argument is the expiry
	eq(t, "commands", c.subLog(), "HSET h:1  x f1 v2 | PEXPIREAT h:1 1700000099999")
	eq(t, "expiry", expiryMs(n, "h:1"), 1700000099999)
	// versioned: the stored version must match, then it is incremented
	k = []string{"h:2"}
	c.wantEval(`"1"`, s, k, "ver", "0", "f1", "v1")
	eq(t, "commands", c.subLog(), "HGET h:2 ver | HSET h:2 ver 1 f1 v1")
	c.wantEval(`"2"`, s, k, "ver", "1", "f1", "v2", "1700000088888")
	eq(t, "ver", n.DBs.HashOf("h:2")["ver"], "2")
	eq(t, "f1", n.DBs.HashOf("h:2")["f1"], "v2")
	eq(t, "expiry", expiryMs(n, "h:2"), 1700000088888)
	c.wantEval(`nil`, s, k, "ver", "1", "f1", "stale") // version mismatch
	eq(t, "commands", c.subLog(), "HGET h:2 ver")
	eq(t, "f1", n.DBs.HashOf("h:2")["f1"], "v2")
	c.want(`*["ver" "2" "f1" "v2"]`, "HGETALL", "h:2")
	// the key holds something else
	c.want(`+"OK"`, "SET", "h:3", "str")
	c.wantErr("WRONGTYPE Operation against a key holding the wrong kind of value", "EVAL", s, "1", "h:3", "ver", "0", "f1", "v1")
	noGaps(t, w)
}

func TestRepoJSONSaveScript(t *testing.T) {
	s := repoScripts(t, "/repo/om/json.go", "jsonSaveScript")["jsonSaveScript"]
	w, _, n, c := single(t)
	k := []string{"j:1"}
	c.wantEval(`"x"`, s, k, "", "x", `{"a":1}`)
	eq(t, "commands", c.subLog(), `JSON.SET j:1 $ {"a":1}`)
	c.wantEval(`"x"`, s, k, "", "x", `{"a":2}`, "1700000077777")
	eq(t, "commands", c.subLog(), `JSON.SET j:1 $ {"a":2} | PEXPIREAT j:1 1700000077777`)
	eq(t, "expiry", expiryMs(n, "j:1"), 1700000077777)
	c.want(`"{\"a\":2}"`, "JSON.GET", "j:1", ".")
	k = []string{"j:2"}
	c.wantEval(`"1"`, s, k, "Ver", "0", `{"Ver":0,"a":1}`) // new document: JSON.GET of a missing key is nil
	eq(t, "commands", c.subLog(), `JSON.GET j:2 Ver | JSON.SET j:2 $ {"Ver":0,"a":1} | JSON.NUMINCRBY j:2 Ver 1`)
	c.wantEval(`"2"`, s, k, "Ver", "1", `{"Ver":1,"a":2}`, "1700000066666")
	eq(t, "commands", c.subLog(), `JSON.GET j:2 Ver | JSON.SET j:2 $ {"Ver":1,"a":2} | JSON.NUMINCRBY j:2 Ver 1 | PEXPIREAT j:2 1700000066666`)
	c.wantEval(`nil`, s, k, "Ver", "1", `{"Ver":1,"a":3}`) // stale version
	c.want(`"{\"Ver\":2,\"a\":2}"`, "JSON.GET", "j:2", ".")
	eq(t, "expiry", expiryMs(n, "j:2"), 1700000066666)
	noGaps(t, w)
}

func TestRepoBloomFilterScripts(t *testing.T) {
	s := repoScripts(t, "/repo/rueidisprob/bloomfilter.go", "bloomFilterAddMultiScript", "bloomFilterExistsMultiScript",
		"bloomFilterExistsMultiReadOnlyScript", "bloomFilterResetScript", "bloomFilterDeleteScript")
	w, _, n, c := single(t)
	k := []string{"bf", "bf:c"}
	// hashIterations = 2; elements (1,9) (1,9) (3,9): the second is a duplicate, so two new elements are counted.
	// Bits 1 and 3 of byte 0 are 0x40|0x10, bit 9 is bit 1 of byte 1: 0x40.
	c.wantEval(`:2`, s["bloomFilterAddMultiScript"], k, "2", "1", "9", "1", "9", "3", "9")
	eq(t, "bitmap", str(n, "bf"), "\x50\x40")
	eq(t, "counter", str(n, "bf:c"), "2")
	mods := len(n.DBs.Mods)
	c.wantEval(`:2`, s["bloomFilterAddMultiScript"], k, "2", "3", "1") // all bits already set: nothing counted
	eq(t, "unchanged bits do not modify the bitmap (only the counter is signalled)", len(n.DBs.Mods), mods+1)
	c.wantEval(`*[:1 nil :1]`, s["bloomFilterExistsMultiScript"], k[:1], "2", "1", "9", "1", "2", "3", "9")
	eq(t, "first command", c.lastExec().Sub[0].Argv[0]+" "+c.lastExec().Sub[0].Argv[4], "BITFIELD 1")
	c.want(`*[:1 nil :1]`, "EVAL_RO", s["bloomFilterExistsMultiReadOnlyScript"], "1", "bf", "2", "1", "9", "1", "2", "3", "9")
	eq(t, "first command", c.lastExec().Sub[0].Argv[0], "BITFIELD_RO")
	// the variant using BITFIELD cannot run as a read-only script
	c.wantErr("ERR Write commands are not allowed from read-only scripts.", "EVAL_RO", s["bloomFilterExistsMultiScript"], "1", "bf", "2", "1", "9")
	c.wantEval(`*[]`, s["bloomFilterExistsMultiScript"], k[:1], "3") // no elements
	c.wantEval(`:1`, s["bloomFilterResetScript"], k)
	eq(t, "commands", c.subLog(), "SET bf  | SET bf:c 0")
	c.wantEval(`*[nil]`, s["bloomFilterExistsMultiScript"], k[:1], "2", "1", "9")
	c.wantEval(`:1`, s["bloomFilterDeleteScript"], k)
	eq(t, "exists", n.DBs.Has("bf") || n.DBs.Has("bf:c"), false)
	noGaps(t, w)
}

func TestRepoCountingBloomFilterScripts(t *testing.T) {
	s := repoScripts(t, "/repo/rueidisprob/countingbloomfilter.go", "countingBloomFilterAddMultiScript",
		"countingBloomFilterRemoveMultiScript", "countingBloomFilterDeleteScript")
	w, _, n, c := single(t)
	k := []string{"cbf", "cbf:c"}
	// ARGV: itemCount, indexes...
	c.wantEval(`:2`, s["countingBloomFilterAddMultiScript"], k, "2", "5", "9", "5", "7")
	c.want(`*["5" "2" "9" "1" "7" "1"]`, "HGETALL", "cbf")
	c.want(`*["2" nil "1"]`, "HMGET", "cbf", "5", "6", "7") // what ItemMinCount reads

	// ARGV: indexes..., hashIterations. Elements (5,9) (5,7) (5,3): the third would drive counter 5 below zero at
	// its first index, so it is rolled back and not removed; 2 elements are removed.
	c.wantEval(`:0`, s["countingBloomFilterRemoveMultiScript"], k, "5", "9", "5", "7", "5", "3", "2")
	c.want(`*["5" "0" "9" "0" "7" "0"]`, "HGETALL", "cbf")
	if log := c.sc.Cmds[len(c.sc.Cmds)-2]; !strings.HasSuffix(subLogOf(log), "HINCRBY cbf 5 -1 | HINCRBY cbf 9 -1 | HINCRBY cbf 5 -1 | HINCRBY cbf 7 -1 | DECRBY cbf:c 2") {
		t.Fatalf("commands: %s", subLogOf(log))
	}

	// rollback at the second index: (9,3) fails at index 3 (absent), which restores 9 so that (4,9) can be removed
	c.want(`:2`, "DEL", "cbf", "cbf:c")
	c.want(`:2`, "HSET", "cbf", "9", "1", "4", "1")
	c.want(`+"OK"`, "SET", "cbf:c", "1")
	c.wantEval(`:0`, s["countingBloomFilterRemoveMultiScript"], k, "9", "3", "4", "9", "2")
	if log := c.subLog(); !strings.HasSuffix(log, "HGET cbf 9 | HINCRBY cbf 4 -1 | HINCRBY cbf 9 -1 | DECRBY cbf:c 1") {
		t.Fatalf("commands: %s", log)
	}
	c.want(`*["9" "0" "4" "0"]`, "HGETALL", "cbf")
	// nothing removable: no HINCRBY at all and the item counter is decreased by 0
	c.want(`:0`, "HSET", "cbf", "9", "1")
	c.want(`:1`, "HDEL", "cbf", "4")
	c.want(`+"OK"`, "SET", "cbf:c", "1")
	c.wantEval(`:1`, s["countingBloomFilterRemoveMultiScript"], k, "9", "3", "2")
	eq(t, "commands", c.subLog(), "HGET cbf 9 | HGET cbf 3 | DECRBY cbf:c 0")
	c.wantEval(`:1`, s["countingBloomFilterDeleteScript"], k)
	eq(t, "exists", n.DBs.Has("cbf") || n.DBs.Has("cbf:c"), false)
	noGaps(t, w)
}

func subLogOf(e *Exec) string {
	var parts []string
	for _, s := range e.Sub {
		parts = append(parts, strings.Join(s.Argv, " "))
	}
	return strings.Join(parts, " | ")
}

func TestRepoSlidingBloomFilterScripts(t *testing.T) {
	s := repoScripts(t, "/repo/rueidisprob/slidingbloomfilter.go", "slidingBloomFilterInitializeScript", "slidingBloomFilterAddMultiScript",
		"slidingBloomFilterExistsMultiScript", "slidingBloomFilterExistsReadOnlyMultiScript", "slidingBloomFilterResetScript")
	w, clk, n, c := single(t)
	k := []string{"f", "f:n", "f:c", "f:nc", "f:lr"}
	now := int64(testEpochMs + 123)
	c.wantEval(`:1`, s["slidingBloomFilterInitializeScript"], k, "5000")
	eq(t, "commands", c.subLog(), "EXISTS f f:n f:c f:nc f:lr | TIME | MSET f  f:c 0 f:n  f:nc 0 | SET f:lr "+ms(now)+" PX 5000 NX")
	eq(t, "rotation expiry", expiryMs(n, "f:lr"), now+5000)
	c.wantEval(`:1`, s["slidingBloomFilterInitializeScript"], k, "5000") // already initialized
	eq(t, "commands", c.subLog(), "EXISTS f f:n f:c f:nc f:lr")

	// ARGV: hashIterations, windowHalf, indexes...; the rotation lock is held, so no rotation
	c.wantEval(`:1`, s["slidingBloomFilterAddMultiScript"], k, "2", "5000", "1", "9")
	eq(t, "filter", str(n, "f"), "\x40\x40")
	eq(t, "next filter", str(n, "f:n"), "\x40\x40")
	eq(t, "next counter", str(n, "f:nc"), "1")
	c.wantEval(`*[:1 nil]`, s["slidingBloomFilterExistsMultiScript"], k, "2", "5000", "1", "9", "1", "2")

	// half a window later the rotation lock has expired: the next filter becomes the current one
	clk.advance(5000 * time.Millisecond)
	c.want(`+"OK"`, "SET", "f", "\xff\xff") // would make everything exist if it were not replaced
	c.wantEval(`:2`, s["slidingBloomFilterAddMultiScript"], k, "2", "5000", "3", "4")
	if log := c.subLog(); !strings.HasPrefix(log, "TIME | SET f:lr "+ms(now+5000)+" PX 5000 NX | RENAME f:n f | RENAME f:nc f:c | SET f:n  | SET f:nc 0 | BITFIELD f SET u1 3 1 | BITFIELD f:n SET u1 3 1") {
		t.Fatalf("commands: %s", log)
	}
	eq(t, "filter", str(n, "f"), "\x58\x40")
	eq(t, "next filter", str(n, "f:n"), "\x18")
	eq(t, "counter", str(n, "f:c"), "2")
	eq(t, "next counter", str(n, "f:nc"), "1")
	eq(t, "rotation expiry", expiryMs(n, "f:lr"), now+10000)
	c.wantEval(`*[:1 nil :1]`, s["slidingBloomFilterExistsReadOnlyMultiScript"], k, "2", "5000", "3", "4", "1", "2", "1", "9")
	if !strings.Contains(c.subLog(), "BITFIELD_RO f GET u1 3") {
		t.Fatalf("commands: %s", c.subLog())
	}
	// that script writes (SET ... NX), so it cannot run through EVAL_RO
	c.wantErr("ERR Write commands are not allowed from read-only scripts.", "EVAL_RO", s["slidingBloomFilterExistsReadOnlyMultiScript"], "5", "f", "f:n", "f:c", "f:nc", "f:lr", "2", "5000", "3", "4")

	// the add-on passes five keys with numkeys 4: the fifth becomes ARGV[1]; the script has no return statement
	c.want(`nil`, "EVAL", s["slidingBloomFilterResetScript"], "4", "f", "f:n", "f:c", "f:nc", "f:lr")
	eq(t, "commands", c.subLog(), "RENAME f:n f | RENAME f:nc f:c | SET f:n  | SET f:nc 0")
	eq(t, "filter", str(n, "f"), "\x18")
	eq(t, "counter", str(n, "f:c"), "1")

	// RENAME of a missing key fails and aborts the script
	c.wantErr("ERR no such key script: ", "EVAL", s["slidingBloomFilterResetScript"], "4", "a", "b", "c", "d")
	// Delete is a plain multi-key DEL
	c.want(`:5`, "DEL", "f", "f:n", "f:c", "f:nc", "f:lr")
	noGaps(t, w)
}

func TestScriptStepBudgetIsAGap(t *testing.T) {
	old := lualite.MaxSteps
	lualite.MaxSteps = 2000
	defer func() { lualite.MaxSteps = old }()
	w, _, _, c := single(t)
	c.wantErr("ERR script exceeded the step budget", "EVAL", `while true do end`, "0")
	eq(t, "gaps", len(w.Gaps), 1)
	eq(t, "the world is usable afterwards", c.sc.inScript(), false)
	c.want(`:1`, "EVAL", "return 1", "0")
}

func TestScriptThroughGhost(t *testing.T) {
	w, _, n, _ := single(t)
	v := w.Ghost("a:1", "EVAL", `return redis.call('SET', KEYS[1], ARGV[1])`, "1", "g", "v")
	eq(t, "reply", v.String(), `+"OK"`)
	eq(t, "g", str(n, "g"), "v")
	eq(t, "writer", n.DBs.Mods[len(n.DBs.Mods)-1].Conn, -1)
	noGaps(t, w)
}

// The model must be a pure function of its input: the same conversation twice gives the same bytes, pushes and history.
func TestScriptDeterminism(t *testing.T) {
	s := repoScripts(t, "/repo/rueidisprob/countingbloomfilter.go", "countingBloomFilterAddMultiScript", "countingBloomFilterRemoveMultiScript")
	play := func() string {
		w, clk, n, c := single(t)
		a := dial(t, w, "a:1", 1)
		a.do("HELLO", "3")
		a.do("CLIENT", "TRACKING", "ON", "BCAST")
		k := []string{"cbf", "cbf:c"}
		c.eval(s["countingBloomFilterAddMultiScript"], k, "3", "5", "9", "5", "7", "1", "2")
		clk.advance(time.Second)
		c.eval(s["countingBloomFilterRemoveMultiScript"], k, "5", "9", "5", "3", "2")
		c.eval(`local t = {} for i, k in ipairs(redis.call('HGETALL', KEYS[1])) do t[#t + 1] = k end return t`, k[:1])
		c.do("JSON.SET", "j", "$", `{"z":1,"a":{"y":2,"b":3}}`)
		c.do("JSON.GET", "j", "$.a", "$.z")
		var sb strings.Builder
		sb.Write(c.sc.Out)
		sb.Write(a.sc.Out)
		for _, m := range n.DBs.Mods {
			sb.WriteString(m.Key + ":" + strconv.Itoa(m.Seq) + ";")
		}
		for _, e := range w.Log {
			for _, sub := range e.Sub {
				sb.WriteString(strconv.Itoa(sub.Seq) + sub.Reply.String())
			}
		}
		noGaps(t, w)
		return sb.String()
	}
	first := play()
	for i := 0; i < 5; i++ {
		if play() != first {
			t.Fatalf("run %d differs", i)
		}
	}
}
