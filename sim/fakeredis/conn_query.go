package fakeredis

// Subscribed reports whether this connection is subscribed to channel (SUBSCRIBE, not patterns).
func (sc *SrvConn) Subscribed(channel string) bool { return !sc.Closed && sc.subs[channel] }
