package fakeredis

import "testing"

func TestSubscribedAccessor(t *testing.T) {
	w, s := ctNewTestSentinels()
	c := ctDial3(t, w, ctS1)
	if c.sc.Subscribed("+switch-master") {
		t.Fatal("not subscribed yet")
	}
	c.do("SUBSCRIBE", "+switch-master", "+slave")
	if !c.sc.Subscribed("+switch-master") || !c.sc.Subscribed("+slave") || c.sc.Subscribed("+sdown") {
		t.Fatal("subscription state")
	}
	if n := s.Publish(ctS1, "+switch-master", "mymaster 10.2.0.1 6379 10.2.0.2 6379"); n != 1 {
		t.Fatalf("deliveries: %d", n)
	}
	w.CloseConn(c.sc)
	if c.sc.Subscribed("+switch-master") {
		t.Fatal("closed connection still subscribed")
	}
}
