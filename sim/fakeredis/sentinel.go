package fakeredis

// Replication roles of data nodes (ROLE, INFO replication, Promote/Demote) and the Redis
// Sentinel model.
//
// A sentinel is a Node of the World (so that the simulator can Accept connections to its
// address) flagged as a sentinel: it only serves the commands a real Sentinel serves and
// answers SENTINEL queries from ITS OWN view of the monitored masters. Views are plain
// structs the harness edits directly, so sentinels can disagree with each other and with
// the real roles of the data nodes (which only change through Promote/Demote).

import (
	"fmt"
	"path"
	"strconv"
	"strings"

	"verifsim/resp"
)

// ---------------------------------------------------------------------------
// replication roles of data nodes

// replOffset is the replication offset a node reports: Node.ReplOffset when set, else a
// deterministic non-zero value that grows with the number of modifications of its dataset.
func replOffset(n *Node) int64 {
	if n.ReplOffset != 0 {
		return n.ReplOffset
	}
	return int64(len(n.DBs.Mods)) + 1
}

// replState is the link state a replica reports in ROLE.
func replState(n *Node) string {
	if n.ReplState != "" {
		return n.ReplState
	}
	return "connected"
}

// replicasOfNode lists the replicas of master n in creation order.
func replicasOfNode(w *World, n *Node) []*Node {
	var out []*Node
	for _, a := range w.order {
		if r := w.Nodes[a]; r.Role == "slave" && r.MasterOf == n.Addr {
			out = append(out, r)
		}
	}
	return out
}

// roleReply builds the ROLE answer of a data node:
// master: ["master", offset, [[ip, port, offset]...]] (ip/port/offset as bulk strings),
// replica: ["slave", masterHost, masterPort, state, offset] (offset -1 unless connected).
func roleReply(w *World, n *Node) resp.Value {
	if n.Role == "slave" {
		host, port := splitHostPort(n.MasterOf)
		off := replOffset(n)
		st := replState(n)
		if st != "connected" {
			off = -1
		}
		return resp.Arr(resp.Bulk("slave"), resp.Bulk(host), resp.Int(int64(port)), resp.Bulk(st), resp.Int(off))
	}
	reps := resp.Arr()
	for _, r := range replicasOfNode(w, n) {
		if r.Down || replState(r) != "connected" {
			continue
		}
		host, port := splitHostPort(r.Addr)
		reps.A = append(reps.A, resp.Arr(resp.Bulk(host), resp.Bulk(strconv.Itoa(port)), resp.Bulk(strconv.FormatInt(replOffset(r), 10))))
	}
	return resp.Arr(resp.Bulk("master"), resp.Int(replOffset(n)), reps)
}

// replInfo builds the "# Replication" section of INFO.
func replInfo(w *World, n *Node) string {
	var sb strings.Builder
	sb.WriteString("# Replication\r\nrole:" + n.Role + "\r\n")
	if n.Role == "slave" {
		host, port := splitHostPort(n.MasterOf)
		link := "up"
		if replState(n) != "connected" {
			link = "down"
		}
		fmt.Fprintf(&sb, "master_host:%s\r\nmaster_port:%d\r\nmaster_link_status:%s\r\nslave_repl_offset:%d\r\nslave_read_only:1\r\n", host, port, link, replOffset(n))
		sb.WriteString("connected_slaves:0\r\n")
	} else {
		i := 0
		var lines strings.Builder
		for _, r := range replicasOfNode(w, n) {
			if r.Down || replState(r) != "connected" {
				continue
			}
			host, port := splitHostPort(r.Addr)
			fmt.Fprintf(&lines, "slave%d:ip=%s,port=%d,state=online,offset=%d,lag=0\r\n", i, host, port, replOffset(r))
			i++
		}
		fmt.Fprintf(&sb, "connected_slaves:%d\r\n%s", i, lines.String())
	}
	fmt.Fprintf(&sb, "master_replid:%s\r\nmaster_repl_offset:%d\r\n", strings.Repeat("a", 40), replOffset(n))
	return sb.String()
}

// rebindDataset makes node n serve the dataset of node m (a full resynchronisation): the
// tracking tables n's connections had on the old dataset are dropped and tracking
// connections of n receive a flush invalidation, as Redis sends when a replica empties its
// dataset to load the master's.
func rebindDataset(w *World, n, m *Node) {
	old := n.DBs
	for _, sc := range n.Conns {
		old.untrackConn(sc)
	}
	n.DBs = m.DBs
	n.Scripts = m.Scripts
	for _, sc := range n.Conns {
		if sc.Sess.Tracking && !sc.Closed {
			sc.push("invalidate", resp.Push(resp.Bulk("invalidate"), resp.Nil()))
		}
	}
}

// unblockOnDemotion answers the blocked clients of a master that turns into a replica, as Redis does.
func unblockOnDemotion(w *World, n *Node) {
	for _, sc := range append([]*SrvConn(nil), n.Conns...) {
		b := sc.blocked
		if b == nil {
			continue
		}
		sc.blocked = nil
		v := resp.Err("UNBLOCKED force unblock from blocking operation, instance state changed (master -> replica?)")
		b.exec.Reply = v
		sc.appendReply(b.exec, v)
		w.Feed(sc, nil)
	}
}

// Promote turns the (non-cluster) node addr into a master (REPLICAOF NO ONE). It keeps
// serving the Dataset it shared with its former master (instant replication: the two
// nodes still see the same data until the former master is demoted or written
// independently, which the model cannot represent). Other nodes are not touched: call
// Demote for the old master and the other replicas. For cluster nodes use Cluster.Failover.
func (w *World) Promote(addr string) {
	n := w.Nodes[addr]
	if n == nil {
		panic("fakeredis: Promote: unknown node " + addr)
	}
	if w.Cluster != nil && n.ClusterEnabled {
		w.gap("Promote(%s) on a cluster node: use Cluster.Failover", addr)
		return
	}
	n.Role, n.MasterOf = "master", ""
}

// Demote turns the (non-cluster) node addr into a replica of newMaster (REPLICAOF host
// port): Role "slave", MasterOf newMaster, and it serves newMaster's Dataset from now on
// (if that is a different Dataset, tracking connections of addr get a flush
// invalidation). Clients blocked on addr are unblocked with -UNBLOCKED as in Redis. Open
// connections stay open: writes on them are answered with -READONLY, or with
// -REDIRECT <newMaster> for connections that announced CLIENT CAPA redirect.
func (w *World) Demote(addr, newMaster string) {
	n, m := w.Nodes[addr], w.Nodes[newMaster]
	if n == nil || m == nil {
		panic("fakeredis: Demote: unknown node " + addr + " or " + newMaster)
	}
	if addr == newMaster {
		panic("fakeredis: Demote: a node cannot replicate itself")
	}
	if w.Cluster != nil && n.ClusterEnabled {
		w.gap("Demote(%s) on a cluster node: use Cluster.Failover", addr)
		return
	}
	wasMaster := n.Role == "master"
	n.Role, n.MasterOf = "slave", newMaster
	if n.DBs != m.DBs {
		rebindDataset(w, n, m)
	}
	if wasMaster {
		unblockOnDemotion(w, n)
	}
}

// ---------------------------------------------------------------------------
// sentinel model

// SentinelInstance is what one sentinel believes about one instance (a master, a replica
// or another sentinel). Zero values give a healthy instance.
type SentinelInstance struct {
	// Addr is "host:port" ("[v6]:port" for IPv6); the host is reported verbatim as "ip".
	Addr string
	// Name is the instance name: the master name for masters; for replicas it defaults to
	// "ip:port", for sentinels to the run id.
	Name string
	// RunID defaults to the RunID of the World node at Addr, or 40 zeros.
	RunID string
	// SDown / ODown add the s_down / o_down flags and the s-down-time / o-down-time fields.
	SDown bool
	ODown bool
	// Disconnected adds the "disconnected" flag (link down).
	Disconnected bool
	// ExtraFlags are appended to the flags (e.g. "master_down", "failover_in_progress", "promoted").
	ExtraFlags []string
	// Flags, when not empty, replaces the computed flags string entirely.
	Flags string
	// DownMillis is the value reported as s-down-time / o-down-time (default 30000).
	DownMillis int64

	// replicas only
	MasterLinkStatus string // "ok" (default) or "err"
	MasterHost       string // default: host of the owning master's Addr
	MasterPort       int    // default: port of the owning master's Addr
	Priority         int    // slave-priority, default 100
	ReplOffset       int64  // slave-repl-offset, default: the node's replication offset or 0
	RoleReported     string // default "slave" for replicas, "master" for masters

	// Extra field/value pairs appended at the end of the instance's field list.
	Extra []string
}

// SentinelMaster is one sentinel's view of one monitored master.
type SentinelMaster struct {
	SentinelInstance
	Quorum      int // default 2
	ConfigEpoch int64
	// Replicas and Sentinels are this sentinel's lists for the master, in reporting order.
	// Sentinels lists the OTHER sentinels only.
	Replicas  []*SentinelInstance
	Sentinels []*SentinelInstance
}

// Sentinel is one sentinel process with its private view.
type Sentinel struct {
	Addr    string
	Node    *Node
	Masters []*SentinelMaster // in reporting order
	w       *World
}

// SentinelModel is the set of sentinels of a World. Create it with NewSentinelModel.
type SentinelModel struct {
	w     *World
	order []string
	m     map[string]*Sentinel
}

// NewSentinelModel creates an empty sentinel model and installs it as w.Sentinel.
func NewSentinelModel(w *World) *SentinelModel {
	s := &SentinelModel{w: w, m: map[string]*Sentinel{}}
	w.Sentinel = s
	return s
}

// AddSentinel registers addr as a sentinel process (a World node is created for it when
// missing, so that World.Accept works). Its authentication is separate from the data
// nodes': set Sentinel.Node.Users (or use SetAuth). The new sentinel monitors nothing.
func (s *SentinelModel) AddSentinel(addr string) *Sentinel {
	if x := s.m[addr]; x != nil {
		return x
	}
	n := s.w.Nodes[addr]
	if n == nil {
		n = s.w.AddNode(addr)
	}
	x := &Sentinel{Addr: addr, Node: n, w: s.w}
	s.m[addr] = x
	s.order = append(s.order, addr)
	return x
}

// IsSentinel reports whether addr is a sentinel. Safe on a nil model.
func (s *SentinelModel) IsSentinel(addr string) bool {
	if s == nil {
		return false
	}
	return s.m[addr] != nil
}

// Get returns the sentinel at addr (nil if none).
func (s *SentinelModel) Get(addr string) *Sentinel {
	if s == nil {
		return nil
	}
	return s.m[addr]
}

// Addrs returns the sentinel addresses in registration order.
func (s *SentinelModel) Addrs() []string { return append([]string(nil), s.order...) }

// SetAuth sets the only user/password the sentinel at addr accepts ("default" for
// requirepass); an empty password removes authentication.
func (s *SentinelModel) SetAuth(addr, user, pass string) {
	x := s.must(addr)
	x.Node.Users = map[string]string{}
	if pass != "" {
		x.Node.Users[user] = pass
	}
}

func (s *SentinelModel) must(addr string) *Sentinel {
	x := s.m[addr]
	if x == nil {
		panic("fakeredis: not a sentinel: " + addr)
	}
	return x
}

// MonitorAll makes every registered sentinel monitor master `name` at masterAddr with
// the given replicas, each one listing all the other sentinels: a consistent starting
// point that the harness then perturbs per sentinel.
func (s *SentinelModel) MonitorAll(name, masterAddr string, replicas ...string) {
	for _, a := range s.order {
		var others []string
		for _, b := range s.order {
			if b != a {
				others = append(others, b)
			}
		}
		s.m[a].Monitor(name, masterAddr, replicas, others)
	}
}

// Monitor sets (replacing any previous view of that name) this sentinel's view of master
// `name`: its address, its replicas and the other sentinels. It returns the view for
// further editing.
func (x *Sentinel) Monitor(name, masterAddr string, replicas, otherSentinels []string) *SentinelMaster {
	m := &SentinelMaster{SentinelInstance: SentinelInstance{Addr: masterAddr, Name: name}}
	for _, r := range replicas {
		m.Replicas = append(m.Replicas, &SentinelInstance{Addr: r})
	}
	for _, o := range otherSentinels {
		m.Sentinels = append(m.Sentinels, &SentinelInstance{Addr: o})
	}
	for i, old := range x.Masters {
		if old.Name == name {
			x.Masters[i] = m
			return m
		}
	}
	x.Masters = append(x.Masters, m)
	return m
}

// Master returns this sentinel's view of master `name` (nil when it does not monitor it).
func (x *Sentinel) Master(name string) *SentinelMaster {
	for _, m := range x.Masters {
		if m.Name == name {
			return m
		}
	}
	return nil
}

// Unmonitor removes master `name` from this sentinel's view (SENTINEL REMOVE).
func (x *Sentinel) Unmonitor(name string) {
	for i, m := range x.Masters {
		if m.Name == name {
			x.Masters = append(x.Masters[:i], x.Masters[i+1:]...)
			return
		}
	}
}

// Replica returns the view's entry for the replica at addr (nil if absent).
func (m *SentinelMaster) Replica(addr string) *SentinelInstance {
	for _, r := range m.Replicas {
		if r.Addr == addr {
			return r
		}
	}
	return nil
}

// AddReplica appends a healthy replica entry (or returns the existing one).
func (m *SentinelMaster) AddReplica(addr string) *SentinelInstance {
	if r := m.Replica(addr); r != nil {
		return r
	}
	r := &SentinelInstance{Addr: addr}
	m.Replicas = append(m.Replicas, r)
	return r
}

// RemoveReplica removes the entry of the replica at addr.
func (m *SentinelMaster) RemoveReplica(addr string) {
	for i, r := range m.Replicas {
		if r.Addr == addr {
			m.Replicas = append(m.Replicas[:i], m.Replicas[i+1:]...)
			return
		}
	}
}

// Peer returns the view's entry for the other sentinel at addr (nil if absent).
func (m *SentinelMaster) Peer(addr string) *SentinelInstance {
	for _, r := range m.Sentinels {
		if r.Addr == addr {
			return r
		}
	}
	return nil
}

// AddPeer appends an entry for another sentinel (or returns the existing one).
func (m *SentinelMaster) AddPeer(addr string) *SentinelInstance {
	if r := m.Peer(addr); r != nil {
		return r
	}
	r := &SentinelInstance{Addr: addr}
	m.Sentinels = append(m.Sentinels, r)
	return r
}

// RemovePeer removes the entry of the other sentinel at addr.
func (m *SentinelMaster) RemovePeer(addr string) {
	for i, r := range m.Sentinels {
		if r.Addr == addr {
			m.Sentinels = append(m.Sentinels[:i], m.Sentinels[i+1:]...)
			return
		}
	}
}

// ---------------------------------------------------------------------------
// events

// Publish delivers message on channel to the clients subscribed (SUBSCRIBE or
// PSUBSCRIBE) on the sentinel at sentinelAddr, using the normal pub/sub push frames, and
// returns the number of deliveries. Sentinels publish every event on a channel named
// after the event ("+switch-master", "+sdown", ...).
func (s *SentinelModel) Publish(sentinelAddr, channel, message string) int {
	x := s.must(sentinelAddr)
	n := 0
	for _, c := range append([]*SrvConn(nil), x.Node.Conns...) {
		if c.subs[channel] {
			c.push("message", resp.Push(resp.Bulk("message"), resp.Bulk(channel), resp.Bulk(message)))
			n++
		}
		for _, p := range sortedKeys(c.psubs) {
			if ok, _ := path.Match(p, channel); ok {
				c.push("pmessage", resp.Push(resp.Bulk("pmessage"), resp.Bulk(p), resp.Bulk(channel), resp.Bulk(message)))
				n++
			}
		}
	}
	return n
}

func hostPortWords(addr string) string {
	h, p := splitHostPort(addr)
	return h + " " + strconv.Itoa(p)
}

// SwitchMaster makes the sentinel at sentinelAddr believe that master `name` moved from
// oldAddr to newAddr (the old master becomes a replica entry of the view, the new master's
// replica entry is removed) and publishes
// "+switch-master <name> <oldip> <oldport> <newip> <newport>" to its subscribers. The
// view is updated even when it did not list oldAddr as the master. The roles of the data
// nodes are NOT changed: use World.Promote / World.Demote. Returns the number of deliveries.
func (s *SentinelModel) SwitchMaster(sentinelAddr, name, oldAddr, newAddr string) int {
	x := s.must(sentinelAddr)
	m := x.Master(name)
	if m == nil {
		m = x.Monitor(name, oldAddr, nil, nil)
	}
	m.Addr = newAddr
	m.RunID = ""
	m.SDown, m.ODown, m.Disconnected = false, false, false
	m.ConfigEpoch++
	m.RemoveReplica(newAddr)
	if oldAddr != newAddr {
		m.AddReplica(oldAddr)
	}
	return s.Publish(sentinelAddr, "+switch-master", name+" "+hostPortWords(oldAddr)+" "+hostPortWords(newAddr))
}

// InstanceEvent publishes a Sentinel instance event on `channel` from the sentinel at
// sentinelAddr, formatted as Sentinel does:
//
//	<role> <name> <ip> <port>                                   for role "master"
//	<role> <name> <ip> <port> @ <master-name> <master-ip> <master-port>   for "slave" and "sentinel"
//
// where <name> is the master name, "ip:port" for a slave and the run id for a sentinel;
// the master's address is taken from the sentinel's current view of masterName. extra words
// (e.g. "#quorum 2/2" for +odown) are appended. It does not change the view: set the
// SDown/ODown/... fields yourself. Typical channels: +sdown -sdown +odown -odown +slave
// +sentinel +reboot +failover-end +role-change +convert-to-slave.
func (s *SentinelModel) InstanceEvent(sentinelAddr, channel, role, masterName, instanceAddr string, extra ...string) int {
	x := s.must(sentinelAddr)
	m := x.Master(masterName)
	masterAddr := instanceAddr
	if m != nil {
		masterAddr = m.Addr
	}
	var msg string
	switch role {
	case "master":
		msg = "master " + masterName + " " + hostPortWords(instanceAddr)
	case "slave":
		h, p := splitHostPort(instanceAddr)
		name := h + ":" + strconv.Itoa(p)
		if m != nil {
			if r := m.Replica(instanceAddr); r != nil && r.Name != "" {
				name = r.Name
			}
		}
		msg = "slave " + name + " " + hostPortWords(instanceAddr) + " @ " + masterName + " " + hostPortWords(masterAddr)
	case "sentinel":
		name := ""
		if m != nil {
			if r := m.Peer(instanceAddr); r != nil {
				name = s.instRunID(r)
				if r.Name != "" {
					name = r.Name
				}
			}
		}
		if name == "" {
			name = s.instRunID(&SentinelInstance{Addr: instanceAddr})
		}
		msg = "sentinel " + name + " " + hostPortWords(instanceAddr) + " @ " + masterName + " " + hostPortWords(masterAddr)
	default:
		panic("fakeredis: InstanceEvent: role must be master, slave or sentinel")
	}
	if len(extra) > 0 {
		msg += " " + strings.Join(extra, " ")
	}
	return s.Publish(sentinelAddr, channel, msg)
}

// SDown marks the instance (role "master", "slave" or "sentinel") at instanceAddr
// subjectively down (or up again) in the view of the sentinel at sentinelAddr and
// publishes +sdown / -sdown. Unknown replicas / sentinels are added to the view first.
func (s *SentinelModel) SDown(sentinelAddr, role, masterName, instanceAddr string, down bool) int {
	x := s.must(sentinelAddr)
	if m := x.Master(masterName); m != nil {
		switch role {
		case "master":
			m.SDown = down
		case "slave":
			m.AddReplica(instanceAddr).SDown = down
		case "sentinel":
			m.AddPeer(instanceAddr).SDown = down
		}
	}
	ch := "-sdown"
	if down {
		ch = "+sdown"
	}
	return s.InstanceEvent(sentinelAddr, ch, role, masterName, instanceAddr)
}

// ODown marks the master objectively down (or up) in the view and publishes
// "+odown master <name> <ip> <port> #quorum <q>/<q>" / "-odown master <name> <ip> <port>".
func (s *SentinelModel) ODown(sentinelAddr, masterName string, down bool) int {
	x := s.must(sentinelAddr)
	m := x.Master(masterName)
	if m == nil {
		return 0
	}
	m.ODown = down
	if down {
		m.SDown = true
		q := strconv.Itoa(m.quorum())
		return s.InstanceEvent(sentinelAddr, "+odown", "master", masterName, m.Addr, "#quorum", q+"/"+q)
	}
	return s.InstanceEvent(sentinelAddr, "-odown", "master", masterName, m.Addr)
}

// NewReplica adds the replica to the view (if missing) and publishes +slave.
func (s *SentinelModel) NewReplica(sentinelAddr, masterName, replicaAddr string) int {
	if m := s.must(sentinelAddr).Master(masterName); m != nil {
		m.AddReplica(replicaAddr)
	}
	return s.InstanceEvent(sentinelAddr, "+slave", "slave", masterName, replicaAddr)
}

// NewSentinel adds the other sentinel to the view (if missing) and publishes +sentinel.
func (s *SentinelModel) NewSentinel(sentinelAddr, masterName, otherSentinelAddr string) int {
	if m := s.must(sentinelAddr).Master(masterName); m != nil {
		m.AddPeer(otherSentinelAddr)
	}
	return s.InstanceEvent(sentinelAddr, "+sentinel", "sentinel", masterName, otherSentinelAddr)
}

// Reboot publishes +reboot for the instance (role "master" or "slave").
func (s *SentinelModel) Reboot(sentinelAddr, role, masterName, instanceAddr string) int {
	return s.InstanceEvent(sentinelAddr, "+reboot", role, masterName, instanceAddr)
}

// FailoverEnd publishes "+failover-end master <name> <ip> <port>" (the address is the OLD
// master's, as Sentinel reports it before +switch-master).
func (s *SentinelModel) FailoverEnd(sentinelAddr, masterName, oldMasterAddr string) int {
	return s.InstanceEvent(sentinelAddr, "+failover-end", "master", masterName, oldMasterAddr)
}

// ---------------------------------------------------------------------------
// replies

func (m *SentinelMaster) quorum() int {
	if m.Quorum > 0 {
		return m.Quorum
	}
	return 2
}

func (s *SentinelModel) instRunID(i *SentinelInstance) string {
	if i.RunID != "" {
		return i.RunID
	}
	if n := s.w.Nodes[i.Addr]; n != nil {
		return n.RunID
	}
	return strings.Repeat("0", 40)
}

func (i *SentinelInstance) flags(kind string) string {
	if i.Flags != "" {
		return i.Flags
	}
	var f []string
	if i.SDown {
		f = append(f, "s_down")
	}
	if i.ODown {
		f = append(f, "o_down")
	}
	f = append(f, kind)
	if i.Disconnected {
		f = append(f, "disconnected")
	}
	f = append(f, i.ExtraFlags...)
	return strings.Join(f, ",")
}

// strMap builds a map of bulk strings (a flat array under RESP2).
func strMap(kv []string) resp.Value {
	v := resp.Map()
	for _, s := range kv {
		v.A = append(v.A, resp.Bulk(s))
	}
	return v
}

// instanceFields builds the field list Sentinel emits for an instance
// (addReplySentinelRedisInstance), kind is "master", "slave" or "sentinel".
func (s *SentinelModel) instanceFields(kind string, i *SentinelInstance, m *SentinelMaster) []string {
	host, port := splitHostPort(i.Addr)
	name := i.Name
	if name == "" {
		switch kind {
		case "slave":
			name = host + ":" + strconv.Itoa(port)
		case "sentinel":
			name = s.instRunID(i)
		}
	}
	down := i.DownMillis
	if down == 0 {
		down = 30000
	}
	kv := []string{
		"name", name,
		"ip", host,
		"port", strconv.Itoa(port),
		"runid", s.instRunID(i),
		"flags", i.flags(kind),
		"link-pending-commands", "0",
		"link-refcount", "1",
		"last-ping-sent", "0",
		"last-ok-ping-reply", "100",
		"last-ping-reply", "100",
	}
	if i.SDown || strings.Contains(i.Flags, "s_down") {
		kv = append(kv, "s-down-time", strconv.FormatInt(down, 10))
	}
	if i.ODown || strings.Contains(i.Flags, "o_down") {
		kv = append(kv, "o-down-time", strconv.FormatInt(down, 10))
	}
	if kind == "master" || kind == "slave" {
		rr := i.RoleReported
		if rr == "" {
			rr = kind
		}
		kv = append(kv, "info-refresh", "1000", "role-reported", rr, "role-reported-time", "100000")
	}
	switch kind {
	case "master":
		kv = append(kv,
			"config-epoch", strconv.FormatInt(m.ConfigEpoch, 10),
			"num-slaves", strconv.Itoa(len(m.Replicas)),
			"num-other-sentinels", strconv.Itoa(len(m.Sentinels)),
			"quorum", strconv.Itoa(m.quorum()),
			"failover-timeout", "180000",
			"parallel-syncs", "1")
	case "slave":
		mh, mp := splitHostPort(m.Addr)
		if i.MasterHost != "" {
			mh = i.MasterHost
		}
		if i.MasterPort != 0 {
			mp = i.MasterPort
		}
		link := i.MasterLinkStatus
		if link == "" {
			link = "ok"
		}
		linkDown := "0"
		if link != "ok" {
			linkDown = strconv.FormatInt(down, 10)
		}
		prio := i.Priority
		if prio == 0 {
			prio = 100
		}
		off := i.ReplOffset
		if off == 0 {
			if n := s.w.Nodes[i.Addr]; n != nil && !s.IsSentinel(i.Addr) {
				off = replOffset(n)
			}
		}
		kv = append(kv,
			"master-link-down-time", linkDown,
			"master-link-status", link,
			"master-host", mh,
			"master-port", strconv.Itoa(mp),
			"slave-priority", strconv.Itoa(prio),
			"slave-repl-offset", strconv.FormatInt(off, 10),
			"replica-announced", "1")
	case "sentinel":
		kv = append(kv, "last-hello-message", "500", "voted-leader", "?", "voted-leader-epoch", "0")
	}
	return append(kv, i.Extra...)
}

// sentinelCommands are the commands a sentinel serves; everything else is unknown to it.
var sentinelCommands = map[string]bool{
	"HELLO": true, "AUTH": true, "PING": true, "CLIENT": true, "SENTINEL": true,
	"SUBSCRIBE": true, "UNSUBSCRIBE": true, "PSUBSCRIBE": true, "PUNSUBSCRIBE": true,
	"PUBLISH": true, "INFO": true, "ROLE": true, "QUIT": true, "RESET": true, "COMMAND": true,
	"ACL": true, "SHUTDOWN": true,
}

// rejects answers, for a connection to a sentinel, commands a sentinel does not have.
func (s *SentinelModel) rejects(sc *SrvConn, name string, argv []string) (resp.Value, bool) {
	if s == nil || s.m[sc.Node.Addr] == nil {
		return resp.Value{}, false
	}
	if name == "PUBLISH" && sc.Sess.Authed && len(argv) == 3 {
		if argv[1] != "__sentinel__:hello" {
			return resp.Err("ERR Only HELLO messages are accepted by Sentinel instances."), true
		}
		s.w.gap("PUBLISH __sentinel__:hello to a sentinel is not modelled")
		return resp.Int(0), true
	}
	if sentinelCommands[name] {
		return resp.Value{}, false
	}
	return unknownCommand(argv), true
}

// infoText is the sentinel specific part of a sentinel's INFO answer.
func (s *SentinelModel) infoText(addr string) string {
	x := s.m[addr]
	var sb strings.Builder
	fmt.Fprintf(&sb, "# Sentinel\r\nsentinel_masters:%d\r\nsentinel_tilt:0\r\nsentinel_running_scripts:0\r\nsentinel_scripts_queue_length:0\r\nsentinel_simulate_failure_flags:0\r\n", len(x.Masters))
	for i, m := range x.Masters {
		status := "ok"
		if m.ODown {
			status = "odown"
		} else if m.SDown {
			status = "sdown"
		}
		h, p := splitHostPort(m.Addr)
		fmt.Fprintf(&sb, "master%d:name=%s,status=%s,address=%s:%d,slaves=%d,sentinels=%d\r\n", i, m.Name, status, h, p, len(m.Replicas), len(m.Sentinels)+1)
	}
	return sb.String()
}

// unknownCommand formats Redis' unknown command error (with the argument preview).
func unknownCommand(argv []string) resp.Value {
	var sb strings.Builder
	fmt.Fprintf(&sb, "ERR unknown command '%s', with args beginning with: ", lineSafe(truncate128(argv[0])))
	for _, a := range argv[1:] {
		if sb.Len() >= 128+40 {
			break
		}
		fmt.Fprintf(&sb, "'%s' ", lineSafe(truncate128(a)))
	}
	return resp.Err(sb.String())
}

func truncate128(s string) string {
	if len(s) > 128 {
		return s[:128]
	}
	return s
}

// roleReply is the ROLE answer of a sentinel: ["sentinel", [master names...]].
func (s *SentinelModel) roleReply(addr string) resp.Value {
	names := resp.Arr()
	for _, m := range s.m[addr].Masters {
		names.A = append(names.A, resp.Bulk(m.Name))
	}
	return resp.Arr(resp.Bulk("sentinel"), names)
}

func init() {
	reg("SENTINEL", &cmdSpec{arity: -2, fn: cmdSentinel})
}

func cmdSentinel(w *World, sc *SrvConn, e *Exec, a []string) result {
	s := w.Sentinel
	if s == nil || s.m[sc.Node.Addr] == nil {
		// a data node does not have the SENTINEL command
		return rv(unknownCommand(a))
	}
	x := s.m[sc.Node.Addr]
	sub := up(a[1])
	noMaster := func() result { return rv(resp.Err("ERR No such master with that name")) }
	wrongArgs := func() result {
		return rv(resp.Err(fmt.Sprintf("ERR wrong number of arguments for 'sentinel|%s' command", strings.ToLower(a[1]))))
	}
	switch sub {
	case "GET-MASTER-ADDR-BY-NAME":
		if len(a) != 3 {
			return wrongArgs()
		}
		m := x.Master(a[2])
		if m == nil {
			return rv(resp.NullArr())
		}
		h, p := splitHostPort(m.Addr)
		return rv(resp.Strs(h, strconv.Itoa(p)))
	case "MASTERS":
		if len(a) != 2 {
			return wrongArgs()
		}
		out := resp.Arr()
		for _, m := range x.Masters {
			out.A = append(out.A, strMap(s.instanceFields("master", &m.SentinelInstance, m)))
		}
		return rv(out)
	case "MASTER":
		if len(a) != 3 {
			return wrongArgs()
		}
		m := x.Master(a[2])
		if m == nil {
			return noMaster()
		}
		return rv(strMap(s.instanceFields("master", &m.SentinelInstance, m)))
	case "REPLICAS", "SLAVES":
		if len(a) != 3 {
			return wrongArgs()
		}
		m := x.Master(a[2])
		if m == nil {
			return noMaster()
		}
		out := resp.Arr()
		for _, r := range m.Replicas {
			out.A = append(out.A, strMap(s.instanceFields("slave", r, m)))
		}
		return rv(out)
	case "SENTINELS":
		if len(a) != 3 {
			return wrongArgs()
		}
		m := x.Master(a[2])
		if m == nil {
			return noMaster()
		}
		out := resp.Arr()
		for _, r := range m.Sentinels {
			out.A = append(out.A, strMap(s.instanceFields("sentinel", r, m)))
		}
		return rv(out)
	case "MYID":
		if len(a) != 2 {
			return wrongArgs()
		}
		return rv(resp.Bulk(x.Node.RunID))
	case "CKQUORUM":
		if len(a) != 3 {
			return wrongArgs()
		}
		m := x.Master(a[2])
		if m == nil {
			return noMaster()
		}
		usable := 1
		for _, p := range m.Sentinels {
			if !p.SDown && !p.Disconnected {
				usable++
			}
		}
		if usable < m.quorum() {
			return rv(resp.Err(fmt.Sprintf("NOQUORUM %d usable Sentinels. Not enough available Sentinels to reach the specified quorum for this master", usable)))
		}
		return rv(resp.Simple(fmt.Sprintf("OK %d usable Sentinels. Quorum and failover authorization can be reached", usable)))
	}
	w.gap("SENTINEL %s is not modelled", a[1])
	return rv(resp.Err(fmt.Sprintf("ERR unknown subcommand '%s'. Try SENTINEL HELP.", a[1])))
}
