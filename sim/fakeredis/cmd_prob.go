package fakeredis

// Sparse bitmaps, for the Bloom filters of rueidisprob (one filter may span the whole 2^32-bit range Redis allows while
// only a few thousand bits are ever set).
//
// A string entry is held either densely (entry.str) or, once a bit command has made it longer than denseBitmapMax
// bytes, as pages of bitPage bytes of which only the non-zero ones exist (entry.bm; entry.str is "" then). The bit
// commands (BITFIELD, BITFIELD_RO, SETBIT, GETBIT, BITCOUNT) work on either form through entry.bits / entry.writeBits.
// Every command that reads the value of a string (GET, MGET, APPEND, STRLEN, GETRANGE, SET ... GET, GETEX, INCR & co.)
// does so through entry.val, which turns a sparse entry back into an ordinary string first. A sparse value longer
// than maxFlatten bytes cannot be flattened without using that much memory: that is reported as a harness gap.
// RENAME, DEL, EXISTS, TYPE, EXPIRE & co. move, drop or inspect the entry without looking at the value.

import "math/bits"

const (
	bitPage        = 64       // bytes per page
	denseBitmapMax = 4096     // longer bitmaps written by bit commands are held as pages
	maxFlatten     = 64 << 20 // a sparse value longer than this is not turned back into a Go string
)

type sparseBits struct {
	n     int // logical length of the string, in bytes
	pages map[int]*[bitPage]byte
}

// bitSource is what the bit commands read from: a dense string or a sparse bitmap.
type bitSource interface {
	bit(off uint64) uint64
	byteLen() int
}

type denseBits string

func (s denseBits) bit(off uint64) uint64 { return getBit(string(s), off) }
func (s denseBits) byteLen() int          { return len(s) }

func (b *sparseBits) byteLen() int { return b.n }

func (b *sparseBits) bit(off uint64) uint64 {
	i := int(off >> 3)
	if i >= b.n {
		return 0
	}
	p := b.pages[i/bitPage]
	if p == nil {
		return 0
	}
	return uint64(p[i%bitPage]>>(7-off&7)) & 1
}

func (b *sparseBits) setBit(off uint64, v uint64) {
	i := int(off >> 3)
	if i >= b.n {
		b.n = i + 1
	}
	p := b.pages[i/bitPage]
	if p == nil {
		if v == 0 {
			return
		}
		p = new([bitPage]byte)
		b.pages[i/bitPage] = p
	}
	mask := byte(0x80 >> (off & 7))
	if v != 0 {
		p[i%bitPage] |= mask
	} else {
		p[i%bitPage] &^= mask
	}
}

// popcount counts the set bits in the bit range [from, to] (inclusive).
func (b *sparseBits) popcount(from, to uint64) int64 {
	n := int64(0)
	for pi, p := range b.pages { // a sum: the iteration order does not matter
		base := uint64(pi) * bitPage * 8
		if base > to || base+bitPage*8 <= from {
			continue
		}
		if from <= base && base+bitPage*8-1 <= to {
			for _, x := range p {
				n += int64(bits.OnesCount8(x))
			}
			continue
		}
		for o := uint64(0); o < bitPage*8; o++ {
			if base+o >= from && base+o <= to && p[o>>3]>>(7-o&7)&1 != 0 {
				n++
			}
		}
	}
	return n
}

func sparseFromString(s string) *sparseBits {
	b := &sparseBits{n: len(s), pages: map[int]*[bitPage]byte{}}
	for i := 0; i < len(s); i++ {
		if s[i] != 0 {
			p := b.pages[i/bitPage]
			if p == nil {
				p = new([bitPage]byte)
				b.pages[i/bitPage] = p
			}
			p[i%bitPage] = s[i]
		}
	}
	return b
}

func (b *sparseBits) flat() string {
	out := make([]byte, b.n)
	for pi, p := range b.pages { // disjoint writes: the iteration order does not matter
		copy(out[min(pi*bitPage, b.n):], p[:])
	}
	return string(out)
}

// bits returns the value of a string entry for reading bits (nil entry: the empty string).
func (en *entry) bits() bitSource {
	if en == nil {
		return denseBits("")
	}
	if en.bm != nil {
		return en.bm
	}
	return denseBits(en.str)
}

// growBits makes the string entry at least need bytes long (zero padded), switching to pages when it gets long.
func (en *entry) growBits(need int) (grew bool) {
	if en.bm != nil {
		if en.bm.n < need {
			en.bm.n = need
			return true
		}
		return false
	}
	if len(en.str) >= need {
		return false
	}
	if need > denseBitmapMax {
		en.bm = sparseFromString(en.str)
		en.bm.n = need
		en.str = ""
		return true
	}
	en.str += string(make([]byte, need-len(en.str)))
	return true
}

// writeBits stores the low `width` bits of v at bit offset off (most significant first); the entry is long enough.
func (en *entry) writeBits(off uint64, width int, v uint64) {
	if en.bm != nil {
		for j := 0; j < width; j++ {
			en.bm.setBit(off+uint64(j), (v>>(width-1-j))&1)
		}
		return
	}
	b := []byte(en.str)
	setBits(b, off, width, v)
	en.str = string(b)
}

// val returns the value of a string entry as an ordinary string; a sparse entry becomes a dense one again.
func (en *entry) val(w *World) string {
	if en.bm == nil {
		return en.str
	}
	if en.bm.n > maxFlatten {
		w.gap("a command other than a bit command reads a sparse bitmap of %d bytes: larger than the model flattens", en.bm.n)
		return ""
	}
	en.str = en.bm.flat()
	en.bm = nil
	return en.str
}

// SparseBitmapStats reports, for the string at key in db 0, its logical length in bytes and how many pages of it
// exist (0, 0 for a missing key; pages = -1 for a dense string). For oracles and tests.
func (d *Dataset) SparseBitmapStats(k string) (bytes, pages int) {
	e := d.db(0)[k]
	if e == nil || e.typ != "string" {
		return 0, 0
	}
	if e.bm == nil {
		return len(e.str), -1
	}
	return e.bm.n, len(e.bm.pages)
}
