package fakeredis

import (
	"fmt"
	"net"
	"reflect"
	"sort"
	"strconv"
	"strings"
	"testing"
	"time"

	"verifsim/resp"
)

// ---------------------------------------------------------------------------
// test driver: talks to the model the way the simulator does (Accept / Feed / Out)

type ctTestClock struct{ now time.Time }

func (c *ctTestClock) Now() time.Time          { return c.now }
func (c *ctTestClock) Advance(d time.Duration) { c.now = c.now.Add(d) }

func ctNewTestWorld() (*World, *ctTestClock) {
	clk := &ctTestClock{now: time.Unix(1700000000, 0)}
	return NewWorld(clk.Now), clk
}

type ctTconn struct {
	t      *testing.T
	w      *World
	sc     *SrvConn
	logPos int
	pushes []resp.Value // push frames received so far, as parsed from the wire
}

var ctTestConnID int

func ctDial(t *testing.T, w *World, addr string) *ctTconn {
	t.Helper()
	ctTestConnID++
	return &ctTconn{t: t, w: w, sc: w.Accept(addr, ctTestConnID)}
}

func ctDial3(t *testing.T, w *World, addr string) *ctTconn {
	t.Helper()
	c := ctDial(t, w, addr)
	if v := c.do("HELLO", "3"); v.T != '%' {
		t.Fatalf("HELLO 3 on %s: %v", addr, v)
	}
	return c
}

func ctEncodeCmd(args []string) []byte {
	var b []byte
	b = append(b, '*')
	b = strconv.AppendInt(b, int64(len(args)), 10)
	b = append(b, '\r', '\n')
	for _, a := range args {
		b = append(b, '$')
		b = strconv.AppendInt(b, int64(len(a)), 10)
		b = append(b, '\r', '\n')
		b = append(b, a...)
		b = append(b, '\r', '\n')
	}
	return b
}

// drain parses everything the server wrote since the last call from the wire bytes and
// splits it into replies and pushes using the model's frame log.
func (c *ctTconn) drain() (replies []resp.Value) {
	c.t.Helper()
	buf := c.sc.Out
	c.sc.Out = nil
	frames := c.sc.OutLog[c.logPos:]
	c.logPos = len(c.sc.OutLog)
	for _, f := range frames {
		v, n, err := resp.ParseValue(buf)
		if err != nil {
			c.t.Fatalf("unparsable output %q: %v", buf, err)
		}
		if n != f.Bytes {
			c.t.Fatalf("frame length mismatch: parsed %d logged %d", n, f.Bytes)
		}
		buf = buf[n:]
		if f.Push {
			c.pushes = append(c.pushes, v)
		} else {
			replies = append(replies, v)
		}
	}
	if len(buf) != 0 {
		c.t.Fatalf("trailing output %q", buf)
	}
	return replies
}

// do sends one command and returns its reply (zero Value for push-only commands).
func (c *ctTconn) do(args ...string) resp.Value {
	c.t.Helper()
	c.w.Feed(c.sc, ctEncodeCmd(args))
	r := c.drain()
	if len(r) == 0 {
		return resp.Value{}
	}
	if len(r) != 1 {
		c.t.Fatalf("%v: %d replies", args, len(r))
	}
	return r[0]
}

func (c *ctTconn) takePushes() []resp.Value {
	c.drain()
	p := c.pushes
	c.pushes = nil
	return p
}

func ctWantErr(t *testing.T, v resp.Value, msg string) {
	t.Helper()
	if !v.IsErr() || v.S != msg {
		t.Fatalf("want error %q, got %v", msg, v)
	}
}

func ctWantStr(t *testing.T, v resp.Value, s string) {
	t.Helper()
	if v.IsErr() || v.Null || v.T == '_' || v.S != s {
		t.Fatalf("want %q, got %v", s, v)
	}
}

func ctWantNil(t *testing.T, v resp.Value) {
	t.Helper()
	if !(v.T == '_' || v.Null) {
		t.Fatalf("want nil, got %v", v)
	}
}

func ctWantInt(t *testing.T, v resp.Value, i int64) {
	t.Helper()
	if v.T != ':' || v.I != i {
		t.Fatalf("want :%d, got %v", i, v)
	}
}

func ctNoGaps(t *testing.T, w *World) {
	t.Helper()
	if len(w.Gaps) != 0 {
		t.Fatalf("unexpected gaps: %q", w.Gaps)
	}
}

const (
	ctM1, ctR1 = "10.0.0.1:7001", "10.0.0.1:7101"
	ctM2, ctR2 = "10.0.0.2:7002", "10.0.0.2:7102"
	ctM3, ctR3 = "10.0.0.3:7003", "10.0.0.3:7103"
)

// three shards with one replica each, all slots covered.
// "foo" -> 12182 (ctM3), "bar" -> 5061 (ctM1), "hello" -> 866 (ctM1)
func ctNewTestCluster() (*World, *Cluster, *ctTestClock) {
	w, clk := ctNewTestWorld()
	c := NewCluster(w)
	c.AddShard(ctM1, []string{ctR1}, [2]int{0, 5460})
	c.AddShard(ctM2, []string{ctR2}, [2]int{5461, 10922})
	c.AddShard(ctM3, []string{ctR3}, [2]int{10923, 16383})
	return w, c, clk
}

// ---------------------------------------------------------------------------

func TestKeySlot(t *testing.T) {
	if got := crc16("123456789"); got != 0x31C3 {
		t.Fatalf("crc16 = %#x", got)
	}
	for k, want := range map[string]int{"foo": 12182, "bar": 5061, "hello": 866, "": 0} {
		if got := KeySlot(k); got != want {
			t.Errorf("KeySlot(%q) = %d want %d", k, got, want)
		}
	}
	same := [][2]string{
		{"{user1000}.following", "user1000"},
		{"{user1000}.followers", "user1000"},
		{"foo{}{bar}", "foo{}{bar}"}, // empty tag: whole key
		{"foo{{bar}}zap", "{bar"},
		{"foo{bar}{zap}", "bar"},
		{"{}x", "{}x"},
		{"a{b", "a{b"},
	}
	for _, p := range same {
		if KeySlot(p[0]) != int(crc16(p[1])&16383) {
			t.Errorf("KeySlot(%q) should hash %q", p[0], p[1])
		}
	}
}

func TestTopologyConstruction(t *testing.T) {
	w, c, _ := ctNewTestCluster()
	if got := c.Owner(12182); got == nil || got.Addr != ctM3 {
		t.Fatalf("owner: %v", got)
	}
	if w.Nodes[ctR1].Role != "slave" || w.Nodes[ctR1].MasterOf != ctM1 || w.Nodes[ctR1].DBs != w.Nodes[ctM1].DBs {
		t.Fatal("replica not wired to master")
	}
	if w.Nodes[ctM1].DBs == w.Nodes[ctM2].DBs {
		t.Fatal("masters must have their own datasets")
	}
	if !reflect.DeepEqual(c.Masters(), []string{ctM1, ctM2, ctM3}) || !reflect.DeepEqual(c.Replicas(ctM2), []string{ctR2}) {
		t.Fatal("masters/replicas")
	}
	if !reflect.DeepEqual(c.Ranges(ctM2), [][2]int{{5461, 10922}}) {
		t.Fatalf("ranges %v", c.Ranges(ctM2))
	}
	for _, a := range c.Members() {
		if !w.Nodes[a].ClusterEnabled {
			t.Fatal("ClusterEnabled not set")
		}
	}
	func() {
		defer func() {
			if recover() == nil {
				t.Fatal("double assignment must panic")
			}
		}()
		c.AddShard("10.0.0.4:7004", nil, [2]int{100, 200})
	}()
}

func TestMovedCrossSlotAndKeyless(t *testing.T) {
	w, c, _ := ctNewTestCluster()
	a := ctDial(t, w, ctM1)
	ctWantErr(t, a.do("GET", "foo"), "MOVED 12182 10.0.0.3:7003")
	ctWantErr(t, a.do("SET", "foo", "1"), "MOVED 12182 10.0.0.3:7003")
	ctWantStr(t, a.do("SET", "bar", "v"), "OK")
	ctWantStr(t, a.do("GET", "bar"), "v")
	ctWantStr(t, a.do("PING"), "PONG") // keyless commands are served anywhere
	ctWantErr(t, a.do("MGET", "bar", "foo"), "CROSSSLOT Keys in request don't hash to the same slot")
	ctWantErr(t, a.do("MGET", "foo", "bar"), "CROSSSLOT Keys in request don't hash to the same slot")
	ctWantErr(t, a.do("MGET", "{foo}1", "{foo}2"), "MOVED 12182 10.0.0.3:7003")
	if v := a.do("MGET", "{bar}1", "{bar}2"); v.T != '*' || len(v.A) != 2 {
		t.Fatalf("same slot MGET: %v", v)
	}
	ctWantErr(t, a.do("SELECT", "1"), "ERR SELECT is not allowed in cluster mode")
	if c.Redirects["MOVED"] != 3 || c.Redirects["CROSSSLOT"] != 2 {
		t.Fatalf("counters %v", c.Redirects)
	}
	ctNoGaps(t, w)
}

func TestClusterDown(t *testing.T) {
	w, c, _ := ctNewTestCluster()
	a := ctDial(t, w, ctM1)
	b := ctDial(t, w, ctM3)
	c.SetSlotOwner(5061, "") // slot of "bar"
	ctWantErr(t, a.do("GET", "bar"), "CLUSTERDOWN Hash slot not served")
	ctWantErr(t, b.do("GET", "bar"), "CLUSTERDOWN Hash slot not served")
	ctWantStr(t, a.do("SET", "hello", "x"), "OK") // other slots keep working: full coverage not required by default
	if !strings.Contains(a.do("CLUSTER", "INFO").S, "cluster_state:ok") || !strings.Contains(a.do("CLUSTER", "INFO").S, "cluster_slots_assigned:16383") {
		t.Fatal("cluster info")
	}

	c.RequireFullCoverage = true
	ctWantErr(t, a.do("GET", "hello"), "CLUSTERDOWN The cluster is down")
	ctWantErr(t, a.do("GET", "bar"), "CLUSTERDOWN Hash slot not served")
	if !strings.Contains(a.do("CLUSTER", "INFO").S, "cluster_state:fail") {
		t.Fatal("cluster info must report fail")
	}
	c.SetSlotOwner(5061, ctM1)
	ctWantStr(t, a.do("GET", "hello"), "x")

	c.SetClusterDown(true, ctM1)
	ctWantErr(t, a.do("GET", "hello"), "CLUSTERDOWN The cluster is down")
	ctWantStr(t, a.do("PING"), "PONG")
	ctWantNil(t, b.do("GET", "foo")) // ctM3 is not affected
	c.AllowReadsWhenDown = true
	ctWantStr(t, a.do("GET", "hello"), "x")
	ctWantErr(t, a.do("SET", "hello", "y"), "CLUSTERDOWN The cluster is down and only accepts read commands")
	c.SetClusterDown(false)
	ctWantStr(t, a.do("SET", "hello", "y"), "OK")
}

func TestClusterDownAllNodes(t *testing.T) {
	w, c, _ := ctNewTestCluster()
	b := ctDial(t, w, ctM3)
	c.SetClusterDown(true)
	ctWantErr(t, b.do("GET", "foo"), "CLUSTERDOWN The cluster is down")
	ctWantErr(t, b.do("SET", "foo", "1"), "CLUSTERDOWN The cluster is down")
	// the slot check comes first: a foreign key still reports the down state, not MOVED
	ctWantErr(t, b.do("GET", "bar"), "CLUSTERDOWN The cluster is down")
	c.SetClusterDown(false)
	ctWantNil(t, b.do("GET", "foo"))
	// a failed master with full coverage required takes the cluster down on nodes that know
	c.RequireFullCoverage = true
	c.SetNodeFailed(ctM1, true)
	ctWantErr(t, b.do("GET", "foo"), "CLUSTERDOWN The cluster is down")
	c.SetNodeFailed(ctM1, false)
	ctWantNil(t, b.do("GET", "foo"))
}

func TestMigrationRules(t *testing.T) {
	w, c, clk := ctNewTestCluster()
	slot := KeySlot("{t}a") // 15891, owned by ctM3
	src, dst := c.Owner(slot).Addr, ctM2
	if src != ctM3 {
		t.Fatalf("slot %d owner %s", slot, src)
	}
	s := ctDial(t, w, src)
	d := ctDial(t, w, dst)
	ctWantStr(t, s.do("SET", "{t}a", "va", "PX", "60000"), "OK")
	ctWantStr(t, s.do("SET", "{t}b", "vb"), "OK")
	ctWantStr(t, s.do("SET", "{t}c", "vc"), "OK")

	c.MigrateStart(slot, dst)
	if f, to := c.Migrating(slot); f != src || to != dst {
		t.Fatalf("Migrating: %s %s", f, to)
	}
	// all keys present on the source: served
	ctWantStr(t, s.do("GET", "{t}a"), "va")
	if v := s.do("MGET", "{t}a", "{t}b"); v.IsErr() {
		t.Fatalf("MGET with all keys present: %v", v)
	}
	// a key that does not exist (yet): ASK, for reads and writes alike
	dh, dp := splitHostPort(dst)
	ask := fmt.Sprintf("ASK %d %s:%d", slot, dh, dp)
	sh, sp := splitHostPort(src)
	movedToSrc := fmt.Sprintf("MOVED %d %s:%d", slot, sh, sp)
	movedToDst := fmt.Sprintf("MOVED %d %s:%d", slot, dh, dp)
	ctWantErr(t, s.do("GET", "{t}new"), ask)
	ctWantErr(t, s.do("SET", "{t}new", "1"), ask)
	// target without ASKING: MOVED back to the owner
	ctWantErr(t, d.do("GET", "{t}a"), movedToSrc)

	clk.Advance(10 * time.Second)
	if !c.MigrateKey("{t}a") {
		t.Fatal("MigrateKey should report the key existed")
	}
	if c.MigrateKey("{t}zzz") {
		t.Fatal("MigrateKey of a missing key")
	}
	ctWantErr(t, s.do("GET", "{t}a"), ask)
	// multi-key: some present some missing -> TRYAGAIN; all missing -> ASK
	ctWantErr(t, s.do("MGET", "{t}a", "{t}b"), "TRYAGAIN Multiple keys request during rehashing of slot")
	ctWantErr(t, s.do("MGET", "{t}a", "{t}new"), ask)
	// ASKING is one-shot
	ctWantStr(t, d.do("ASKING"), "OK")
	ctWantStr(t, d.do("GET", "{t}a"), "va")
	ctWantErr(t, d.do("GET", "{t}a"), movedToSrc)
	// the TTL travelled with the key (50s left)
	ctWantStr(t, d.do("ASKING"), "OK")
	ctWantInt(t, d.do("PTTL", "{t}a"), 50000)
	// ASKING + multi-key with missing keys -> TRYAGAIN; all present or single key -> served
	ctWantStr(t, d.do("ASKING"), "OK")
	ctWantErr(t, d.do("MGET", "{t}a", "{t}b"), "TRYAGAIN Multiple keys request during rehashing of slot")
	ctWantStr(t, d.do("ASKING"), "OK")
	if v := d.do("MGET", "{t}a", "{t}a"); v.IsErr() {
		t.Fatalf("same key twice is not a multiple keys request: %v", v)
	}
	ctWantStr(t, d.do("ASKING"), "OK")
	ctWantStr(t, d.do("SET", "{t}new", "n"), "OK") // single missing key with ASKING: served (creates it on the target)
	// a redirected command also consumes the ASKING flag
	ctWantStr(t, d.do("ASKING"), "OK")
	ctWantErr(t, d.do("GET", "bar"), "MOVED 5061 10.0.0.1:7001")
	ctWantErr(t, d.do("GET", "{t}a"), movedToSrc)

	if got := c.MigrateSomeKeys(slot, 1); !reflect.DeepEqual(got, []string{"{t}b"}) {
		t.Fatalf("MigrateSomeKeys: %v", got)
	}
	ctWantInt(t, s.do("CLUSTER", "COUNTKEYSINSLOT", strconv.Itoa(slot)), 1)
	c.MigrateFinish(slot)
	if c.Owner(slot).Addr != dst {
		t.Fatal("ownership did not flip")
	}
	if f, _ := c.Migrating(slot); f != "" {
		t.Fatal("migration marks not cleared")
	}
	ctWantErr(t, s.do("GET", "{t}c"), movedToDst)
	ctWantStr(t, d.do("GET", "{t}c"), "vc")
	ctWantStr(t, d.do("GET", "{t}b"), "vb")
	ctWantInt(t, d.do("CLUSTER", "COUNTKEYSINSLOT", strconv.Itoa(slot)), 4)
	ctWantInt(t, s.do("CLUSTER", "COUNTKEYSINSLOT", strconv.Itoa(slot)), 0)
	if got := c.KeysInSlot(dst, slot); !reflect.DeepEqual(got, []string{"{t}a", "{t}b", "{t}c", "{t}new"}) {
		t.Fatalf("keys on target: %v", got)
	}
	// expiry still happens at the original time
	clk.Advance(49 * time.Second)
	ctWantStr(t, d.do("GET", "{t}a"), "va")
	clk.Advance(2 * time.Second)
	ctWantNil(t, d.do("GET", "{t}a"))
	ctNoGaps(t, w)
}

func TestMigrationClockOffsetKeepsRemainingTTL(t *testing.T) {
	w, c, _ := ctNewTestCluster()
	slot := KeySlot("bar")
	w.Nodes[ctM2].ClockOff = time.Hour
	s := ctDial(t, w, ctM1)
	ctWantStr(t, s.do("SET", "bar", "v", "PX", "5000"), "OK")
	c.MoveSlot(slot, ctM2)
	d := ctDial(t, w, ctM2)
	ctWantInt(t, d.do("PTTL", "bar"), 5000)
}

func TestMigrationInvalidatesTrackedKeysOnSource(t *testing.T) {
	w, c, _ := ctNewTestCluster()
	s := ctDial3(t, w, ctM1)
	ctWantStr(t, s.do("CLIENT", "TRACKING", "ON"), "OK")
	ctWantStr(t, s.do("SET", "bar", "v"), "OK")
	s.takePushes()
	ctWantStr(t, s.do("GET", "bar"), "v")
	d := ctDial3(t, w, ctM2)
	ctWantStr(t, d.do("CLIENT", "TRACKING", "ON"), "OK")
	c.MoveSlot(KeySlot("bar"), ctM2)
	p := s.takePushes()
	if len(p) != 1 || p[0].T != '>' || p[0].A[0].S != "invalidate" || p[0].A[1].A[0].S != "bar" {
		t.Fatalf("source must invalidate the deleted key: %v", p)
	}
	if len(d.takePushes()) != 0 {
		t.Fatal("nobody tracked the key on the target")
	}
	if w.Nodes[ctM1].DBs.Has("bar") || !w.Nodes[ctM2].DBs.Has("bar") {
		t.Fatal("key did not move")
	}
	ctWantStr(t, d.do("GET", "bar"), "v")
}

func TestAskingSpansTransaction(t *testing.T) {
	w, c, _ := ctNewTestCluster()
	slot := KeySlot("bar")
	s := ctDial(t, w, ctM1)
	ctWantStr(t, s.do("SET", "bar", "v"), "OK")
	c.MigrateStart(slot, ctM2)
	c.MigrateKey("bar")
	d := ctDial(t, w, ctM2)
	// this is exactly what the client sends after an ASK for a transaction
	ctWantStr(t, d.do("ASKING"), "OK")
	ctWantStr(t, d.do("MULTI"), "OK")
	ctWantStr(t, d.do("GET", "bar"), "QUEUED")
	ctWantStr(t, d.do("SET", "bar", "w"), "QUEUED")
	v := d.do("EXEC")
	if v.T != '*' || len(v.A) != 2 || v.A[0].S != "v" || v.A[1].S != "OK" {
		t.Fatalf("EXEC: %v", v)
	}
	// and the flag is gone afterwards
	ctWantErr(t, d.do("GET", "bar"), fmt.Sprintf("MOVED %d 10.0.0.1:7001", slot))
	// without ASKING the MULTI is fine but the keyed command is redirected and EXEC aborts
	ctWantStr(t, d.do("MULTI"), "OK")
	ctWantErr(t, d.do("GET", "bar"), fmt.Sprintf("MOVED %d 10.0.0.1:7001", slot))
	ctWantErr(t, d.do("EXEC"), "EXECABORT Transaction discarded because of previous errors.")
}

func TestMultiRedirects(t *testing.T) {
	w, c, _ := ctNewTestCluster()
	a := ctDial(t, w, ctM1)
	// error while queuing -> EXECABORT
	ctWantStr(t, a.do("MULTI"), "OK")
	ctWantStr(t, a.do("SET", "bar", "1"), "QUEUED")
	ctWantErr(t, a.do("GET", "foo"), "MOVED 12182 10.0.0.3:7003")
	ctWantErr(t, a.do("EXEC"), "EXECABORT Transaction discarded because of previous errors.")
	ctWantNil(t, a.do("GET", "bar"))
	// cross slot inside one queued command
	ctWantStr(t, a.do("MULTI"), "OK")
	ctWantErr(t, a.do("MGET", "bar", "hello"), "CROSSSLOT Keys in request don't hash to the same slot")
	ctWantErr(t, a.do("EXEC"), "EXECABORT Transaction discarded because of previous errors.")
	// EXEC re-checks the queued keys: the slot moved between queuing and EXEC
	ctWantStr(t, a.do("MULTI"), "OK")
	ctWantStr(t, a.do("SET", "bar", "2"), "QUEUED")
	c.MoveSlot(KeySlot("bar"), ctM2)
	ctWantErr(t, a.do("EXEC"), "MOVED 5061 10.0.0.2:7002")
	ctWantErr(t, a.do("EXEC"), "ERR EXEC without MULTI") // the transaction was discarded
	// queued commands of different slots (both local) make EXEC fail with CROSSSLOT
	ctWantStr(t, a.do("MULTI"), "OK")
	ctWantStr(t, a.do("SET", "hello", "1"), "QUEUED")
	ctWantStr(t, a.do("SET", "{hello}x", "1"), "QUEUED")
	ctWantStr(t, a.do("SET", "b", "1"), "QUEUED") // slot 3300, also on ctM1
	ctWantErr(t, a.do("EXEC"), "CROSSSLOT Keys in request don't hash to the same slot")
	// EXEC without MULTI is never redirected
	ctWantErr(t, a.do("EXEC"), "ERR EXEC without MULTI")
	ctNoGaps(t, w)
}

func TestReplicaReadonly(t *testing.T) {
	w, _, _ := ctNewTestCluster()
	m := ctDial(t, w, ctM1)
	ctWantStr(t, m.do("SET", "bar", "v"), "OK")
	r := ctDial(t, w, ctR1)
	ctWantErr(t, r.do("GET", "bar"), "MOVED 5061 10.0.0.1:7001")
	ctWantStr(t, r.do("READONLY"), "OK")
	ctWantStr(t, r.do("GET", "bar"), "v")
	ctWantErr(t, r.do("SET", "bar", "w"), "MOVED 5061 10.0.0.1:7001")
	ctWantErr(t, r.do("GET", "foo"), "MOVED 12182 10.0.0.3:7003")
	// transactions on a readonly replica: reads only
	ctWantStr(t, r.do("MULTI"), "OK")
	ctWantStr(t, r.do("GET", "bar"), "QUEUED")
	if v := r.do("EXEC"); v.T != '*' || v.A[0].S != "v" {
		t.Fatalf("EXEC on replica: %v", v)
	}
	ctWantStr(t, r.do("MULTI"), "OK")
	ctWantErr(t, r.do("SET", "bar", "w"), "MOVED 5061 10.0.0.1:7001")
	ctWantErr(t, r.do("EXEC"), "EXECABORT Transaction discarded because of previous errors.")
	// keyless write on a replica: no redirect, the replica refuses it
	ctWantErr(t, r.do("FLUSHALL"), "READONLY You can't write against a read only replica.")
	ctWantStr(t, r.do("READWRITE"), "OK")
	ctWantErr(t, r.do("GET", "bar"), "MOVED 5061 10.0.0.1:7001")
	// outside cluster mode both commands are refused
	w2, _ := ctNewTestWorld()
	w2.AddNode("1.1.1.1:6379")
	p := ctDial(t, w2, "1.1.1.1:6379")
	ctWantErr(t, p.do("READONLY"), "ERR This instance has cluster support disabled")
	ctWantErr(t, p.do("READWRITE"), "ERR This instance has cluster support disabled")
	ctWantErr(t, p.do("ASKING"), "ERR This instance has cluster support disabled")
	ctWantErr(t, p.do("CLUSTER", "SLOTS"), "ERR This instance has cluster support disabled")
	ctNoGaps(t, w)
}

// ---------------------------------------------------------------------------
// topology answers

// group mirrors what the client keeps per shard.
type ctTgroup struct {
	nodes []string
	slots [][2]int64
}

func ctTstring(v resp.Value) string {
	if v.T == '_' || v.Null {
		return ""
	}
	return v.S
}

func ctTparseEndpoint(fallback, endpoint string, port int64) string {
	switch endpoint {
	case "":
		endpoint, _, _ = net.SplitHostPort(fallback)
	case "?":
		return ""
	}
	return net.JoinHostPort(endpoint, strconv.FormatInt(port, 10))
}

// ctWalkSlots reads a CLUSTER SLOTS answer the way the client's parseSlots does.
func ctWalkSlots(v resp.Value, defaultAddr string) map[string]ctTgroup {
	groups := map[string]ctTgroup{}
	for _, e := range v.A {
		if len(e.A) < 3 {
			continue
		}
		mv := e.A[2].A
		if len(mv) < 2 {
			continue
		}
		master := ctTparseEndpoint(defaultAddr, ctTstring(mv[0]), mv[1].I)
		if master == "" {
			continue
		}
		g, ok := groups[master]
		if !ok {
			for i := 2; i < len(e.A); i++ {
				nv := e.A[i].A
				if len(nv) < 2 {
					continue
				}
				if dst := ctTparseEndpoint(defaultAddr, ctTstring(nv[0]), nv[1].I); dst != "" {
					g.nodes = append(g.nodes, dst)
				}
			}
		}
		g.slots = append(g.slots, [2]int64{e.A[0].I, e.A[1].I})
		groups[master] = g
	}
	return groups
}

// ctAsMap accepts a RESP3 map or an even-length array, like the client's AsMap.
func ctAsMap(t *testing.T, v resp.Value) map[string]resp.Value {
	t.Helper()
	if (v.T != '%' && v.T != '*') || len(v.A)%2 != 0 {
		t.Fatalf("not a map or an even array: %v", v)
	}
	m := map[string]resp.Value{}
	for i := 0; i+1 < len(v.A); i += 2 {
		m[v.A[i].S] = v.A[i+1]
	}
	return m
}

// ctWalkShards reads a CLUSTER SHARDS answer the way the client's parseShards does.
func ctWalkShards(t *testing.T, v resp.Value, defaultAddr string, tls bool) map[string]ctTgroup {
	groups := map[string]ctTgroup{}
	for _, e := range v.A {
		m := -1
		shard := ctAsMap(t, e)
		slots := shard["slots"].A
		var g ctTgroup
		for i := 0; i+1 < len(slots); i += 2 {
			if slots[i].T != ':' || slots[i+1].T != ':' {
				t.Fatalf("slots must be integers: %v", shard["slots"])
			}
			g.slots = append(g.slots, [2]int64{slots[i].I, slots[i+1].I})
		}
		for _, n := range shard["nodes"].A {
			dict := ctAsMap(t, n)
			if dict["health"].S != "online" {
				continue
			}
			port := dict["port"].I
			if tls && dict["tls-port"].I > 0 {
				port = dict["tls-port"].I
			}
			if dst := ctTparseEndpoint(defaultAddr, ctTstring(dict["endpoint"]), port); dst != "" {
				if dict["role"].S == "master" {
					m = len(g.nodes)
				}
				g.nodes = append(g.nodes, dst)
			}
		}
		if m >= 0 {
			g.nodes[0], g.nodes[m] = g.nodes[m], g.nodes[0]
			groups[g.nodes[0]] = g
		}
	}
	return groups
}

func TestSlotsAndShardsShapesConsumableByClientWalk(t *testing.T) {
	w, c, _ := ctNewTestCluster()
	c.SetSlotOwner(100, ctM2) // splits ctM1's range and gives ctM2 two ranges
	want := map[string]ctTgroup{
		ctM1: {nodes: []string{ctM1, ctR1}, slots: [][2]int64{{0, 99}, {101, 5460}}},
		ctM2: {nodes: []string{ctM2, ctR2}, slots: [][2]int64{{100, 100}, {5461, 10922}}},
		ctM3: {nodes: []string{ctM3, ctR3}, slots: [][2]int64{{10923, 16383}}},
	}
	for _, proto := range []int{2, 3} {
		cn := ctDial(t, w, ctM2)
		if proto == 3 {
			cn = ctDial3(t, w, ctM2)
		}
		slots := cn.do("CLUSTER", "SLOTS")
		if slots.T != '*' || len(slots.A) != 5 {
			t.Fatalf("proto %d: CLUSTER SLOTS must have one entry per contiguous range in slot order: %v", proto, slots)
		}
		last := int64(-1)
		for _, e := range slots.A {
			if e.A[0].T != ':' || e.A[1].T != ':' || e.A[0].I <= last {
				t.Fatalf("ranges not ascending integers: %v", e)
			}
			last = e.A[1].I
			for _, nd := range e.A[2:] {
				if len(nd.A) != 4 || nd.A[0].T != '$' || nd.A[1].T != ':' || len(nd.A[2].S) != 40 {
					t.Fatalf("node entry must be [endpoint port id metadata]: %v", nd)
				}
				if proto == 3 && nd.A[3].T != '%' || proto == 2 && nd.A[3].T != '*' {
					t.Fatalf("metadata must be a map (flat array under RESP2): %v", nd.A[3])
				}
			}
		}
		got := ctWalkSlots(slots, ctM2)
		// parseSlots accumulates ranges per master in answer order
		wantSlots := map[string]ctTgroup{
			ctM1: {nodes: want[ctM1].nodes, slots: [][2]int64{{0, 99}, {101, 5460}}},
			ctM2: {nodes: want[ctM2].nodes, slots: [][2]int64{{100, 100}, {5461, 10922}}},
			ctM3: want[ctM3],
		}
		if !reflect.DeepEqual(got, wantSlots) {
			t.Fatalf("proto %d: walk of CLUSTER SLOTS = %v", proto, got)
		}

		shards := cn.do("CLUSTER", "SHARDS")
		if shards.T != '*' || len(shards.A) != 3 {
			t.Fatalf("CLUSTER SHARDS: %v", shards)
		}
		for _, sh := range shards.A {
			if proto == 3 && sh.T != '%' || proto == 2 && sh.T != '*' {
				t.Fatalf("proto %d: shard must be a map (flat array under RESP2): %v", proto, sh)
			}
			if sh.A[0].S != "slots" || sh.A[2].S != "nodes" {
				t.Fatalf("shard keys: %v", sh)
			}
			for _, nd := range sh.A[3].A {
				if proto == 3 && nd.T != '%' || proto == 2 && nd.T != '*' {
					t.Fatalf("node must be a map: %v", nd)
				}
				var keys []string
				for i := 0; i < len(nd.A); i += 2 {
					keys = append(keys, nd.A[i].S)
				}
				if !reflect.DeepEqual(keys, []string{"id", "port", "ip", "endpoint", "role", "replication-offset", "health"}) {
					t.Fatalf("node fields: %v", keys)
				}
			}
		}
		if got := ctWalkShards(t, shards, ctM2, false); !reflect.DeepEqual(got, want) {
			t.Fatalf("proto %d: walk of CLUSTER SHARDS = %v", proto, got)
		}
	}
	ctNoGaps(t, w)
}

func TestFailoverChangesTopologyAnswers(t *testing.T) {
	w, c, _ := ctNewTestCluster()
	a := ctDial(t, w, ctM1)
	ctWantStr(t, a.do("SET", "bar", "v"), "OK")
	obs := ctDial3(t, w, ctM2)
	c.Failover(ctM1, ctR1, false)
	if w.Nodes[ctM1].Role != "slave" || w.Nodes[ctM1].MasterOf != ctR1 || w.Nodes[ctR1].Role != "master" || w.Nodes[ctR1].MasterOf != "" {
		t.Fatal("roles did not swap")
	}
	if c.Owner(5061).Addr != ctR1 {
		t.Fatal("slots did not follow the new master")
	}
	got := ctWalkSlots(obs.do("CLUSTER", "SLOTS"), ctM2)
	if g := got[ctR1]; !reflect.DeepEqual(g.nodes, []string{ctR1, ctM1}) || !reflect.DeepEqual(g.slots, [][2]int64{{0, 5460}}) {
		t.Fatalf("SLOTS after failover: %v", got)
	}
	if _, ok := got[ctM1]; ok {
		t.Fatal("old master still listed as a master")
	}
	gs := ctWalkShards(t, obs.do("CLUSTER", "SHARDS"), ctM2, false)
	if g := gs[ctR1]; !reflect.DeepEqual(g.nodes, []string{ctR1, ctM1}) {
		t.Fatalf("SHARDS after failover: %v", gs)
	}
	// the old master now redirects, the new one serves the same data
	ctWantErr(t, a.do("GET", "bar"), "MOVED 5061 10.0.0.1:7101")
	n := ctDial(t, w, ctR1)
	ctWantStr(t, n.do("GET", "bar"), "v")
	ctWantStr(t, n.do("SET", "bar", "w"), "OK")
	ctWantStr(t, a.do("READONLY"), "OK")
	ctWantStr(t, a.do("GET", "bar"), "w")

	// second failover with the old master dying
	c.Failover(ctR1, ctM1, true)
	if !w.Nodes[ctR1].Down || w.Nodes[ctR1].Role != "slave" {
		t.Fatal("old master must be down and demoted")
	}
	got = ctWalkSlots(obs.do("CLUSTER", "SLOTS"), ctM2)
	if g := got[ctM1]; !reflect.DeepEqual(g.nodes, []string{ctM1}) {
		t.Fatalf("failed replicas are not listed by CLUSTER SLOTS: %v", got)
	}
	shards := obs.do("CLUSTER", "SHARDS")
	found := false
	for _, sh := range shards.A {
		for _, nd := range ctAsMap(t, sh)["nodes"].A {
			d := ctAsMap(t, nd)
			if d["port"].I == 7101 {
				found = true
				if d["health"].S != "fail" || d["role"].S != "replica" {
					t.Fatalf("failed node: %v", nd)
				}
			}
		}
	}
	if !found {
		t.Fatal("failed node must still be listed by CLUSTER SHARDS")
	}
	if gs := ctWalkShards(t, shards, ctM2, false); !reflect.DeepEqual(gs[ctM1].nodes, []string{ctM1}) {
		t.Fatalf("client walk must skip the failed node: %v", gs)
	}
	if !strings.Contains(obs.do("CLUSTER", "NODES").S, "slave,fail") {
		t.Fatal("CLUSTER NODES must flag the failed node")
	}
	c.SetNodeDown(ctR1, false)
	if w.Nodes[ctR1].Down {
		t.Fatal("node still down")
	}
	if gs := ctWalkShards(t, obs.do("CLUSTER", "SHARDS"), ctM2, false); !reflect.DeepEqual(gs[ctM1].nodes, []string{ctM1, ctR1}) {
		t.Fatalf("node back: %v", gs)
	}
	ctNoGaps(t, w)
}

func TestLoadingReplicaHealth(t *testing.T) {
	w, c, _ := ctNewTestCluster()
	c.NodeOpts(ctR2).Health = "loading"
	cn := ctDial3(t, w, ctM1)
	if g := ctWalkSlots(cn.do("CLUSTER", "SLOTS"), ctM1); !reflect.DeepEqual(g[ctM2].nodes, []string{ctM2}) {
		t.Fatalf("loading replica must not be in SLOTS: %v", g)
	}
	for _, sh := range cn.do("CLUSTER", "SHARDS").A {
		for _, nd := range ctAsMap(t, sh)["nodes"].A {
			d := ctAsMap(t, nd)
			if d["port"].I == 7102 && (d["health"].S != "loading" || d["replication-offset"].I != 0) {
				t.Fatalf("loading replica: %v", nd)
			}
		}
	}
	c.NodeOpts(ctR2).Health = "failed" // arbitrary strings pass through
	if g := ctWalkShards(t, cn.do("CLUSTER", "SHARDS"), ctM1, false); !reflect.DeepEqual(g[ctM2].nodes, []string{ctM2}) {
		t.Fatalf("%v", g)
	}
}

func TestFrozenViews(t *testing.T) {
	w, c, _ := ctNewTestCluster()
	a, b, d := ctDial(t, w, ctM1), ctDial(t, w, ctM2), ctDial(t, w, ctM3)
	ctWantStr(t, d.do("SET", "foo", "v"), "OK")
	c.FreezeView(ctM2)
	before := b.do("CLUSTER", "SLOTS")
	e0 := c.ViewEpoch(ctM2)
	c.MoveSlot(12182, ctM1)
	if !c.IsFrozen(ctM2) || c.ViewEpoch(ctM2) != e0 || c.Epoch() == e0 {
		t.Fatal("epochs")
	}
	// the bystander keeps its stale idea, for redirects and for topology answers
	ctWantErr(t, b.do("GET", "foo"), "MOVED 12182 10.0.0.3:7003")
	if after := b.do("CLUSTER", "SLOTS"); !reflect.DeepEqual(before, after) {
		t.Fatal("frozen node changed its CLUSTER SLOTS answer")
	}
	if c.OwnerSeenBy(ctM2, 12182) != ctM3 || c.OwnerSeenBy(ctM3, 12182) != ctM1 {
		t.Fatal("OwnerSeenBy")
	}
	// the participants know: following the stale redirect leads to a second redirect
	ctWantErr(t, d.do("GET", "foo"), "MOVED 12182 10.0.0.1:7001")
	ctWantStr(t, a.do("GET", "foo"), "v")
	if g := ctWalkSlots(a.do("CLUSTER", "SLOTS"), ctM1); len(g[ctM1].slots) != 2 || len(g[ctM3].slots) != 2 {
		t.Fatalf("live topology: %v", g)
	}
	// a frozen participant still learns the changes it takes part in
	c.FreezeView(ctM3)
	c.MoveSlot(12183, ctM1)
	if c.OwnerSeenBy(ctM3, 12183) != ctM1 || c.OwnerSeenBy(ctM2, 12183) != ctM3 {
		t.Fatal("participant rule")
	}
	c.SyncView(ctM2)
	ctWantErr(t, b.do("GET", "foo"), "MOVED 12182 10.0.0.1:7001")
	// stale failover: the frozen bystander keeps advertising the old master
	c.FreezeView(ctM2)
	c.Failover(ctM1, ctR1, false)
	ctWantErr(t, b.do("GET", "bar"), "MOVED 5061 10.0.0.1:7001")
	ctWantErr(t, a.do("GET", "bar"), "MOVED 5061 10.0.0.1:7101")
	if g := ctWalkSlots(b.do("CLUSTER", "SLOTS"), ctM2); !reflect.DeepEqual(g[ctM1].nodes, []string{ctM1, ctR1}) {
		t.Fatalf("stale SLOTS: %v", g)
	}
	c.SyncAll()
	ctWantErr(t, b.do("GET", "bar"), "MOVED 5061 10.0.0.1:7101")
	ctNoGaps(t, w)
}

func TestRedirectLoopBetweenDisagreeingNodes(t *testing.T) {
	w, c, _ := ctNewTestCluster()
	a, b := ctDial(t, w, ctM1), ctDial(t, w, ctM2)
	// slot of foo really lives on ctM3, but ctM1 and ctM2 point at each other
	c.SetViewSlotOwner(ctM1, 12182, ctM2)
	c.SetViewSlotOwner(ctM2, 12182, ctM1)
	ctWantErr(t, a.do("GET", "foo"), "MOVED 12182 10.0.0.2:7002")
	ctWantErr(t, b.do("GET", "foo"), "MOVED 12182 10.0.0.1:7001")
	c.SyncView(ctM1)
	ctWantErr(t, a.do("GET", "foo"), "MOVED 12182 10.0.0.3:7003")
	ctNoGaps(t, w)
	// claiming a slot whose data is elsewhere is flagged as a harness gap
	c.SetViewSlotOwner(ctM1, 12182, ctM1)
	a.do("GET", "foo")
	if len(w.Gaps) != 1 {
		t.Fatalf("gaps: %q", w.Gaps)
	}
}

func TestEndpointForms(t *testing.T) {
	w, _ := ctNewTestWorld()
	c := NewCluster(w)
	v6, hostA, plain, noip := "[2001:db8::1]:7001", "10.0.0.2:7002", "10.0.0.3:7003", "10.0.0.4:7004"
	c.AddShard(v6, []string{"[2001:db8::2]:7101"}, [2]int{0, 4095})
	c.AddShard(hostA, nil, [2]int{4096, 8191})
	c.AddShard(plain, nil, [2]int{8192, 12287})
	c.AddShard(noip, nil, [2]int{12288, 16383})
	c.NodeOpts(hostA).Hostname = "node-a.example.com"
	c.NodeOpts(hostA).TLSPort = 17002
	c.NodeOpts(noip).UnknownIP = true

	// IPv6: raw ip in answers and redirects
	cn := ctDial3(t, w, plain)
	slots := cn.do("CLUSTER", "SLOTS")
	if ep := slots.A[0].A[2].A[0]; ep.S != "2001:db8::1" {
		t.Fatalf("ipv6 endpoint: %v", ep)
	}
	ctWantErr(t, cn.do("GET", "hello"), "MOVED 866 2001:db8::1:7001") // unbracketed, as Redis prints it
	g := ctWalkSlots(slots, plain)
	if _, ok := g["[2001:db8::1]:7001"]; !ok || g["[2001:db8::1]:7001"].nodes[1] != "[2001:db8::2]:7101" {
		t.Fatalf("ipv6 walk: %v", g)
	}
	// the node that does not know its ip is listed with "" -> the client falls back to the host it asked
	if _, ok := g["10.0.0.3:7004"]; !ok {
		t.Fatalf("empty endpoint must fall back to the asked host: %v", g)
	}
	// hostname is extra metadata when endpoints are ips
	meta := ctAsMap(t, slots.A[1].A[2].A[3])
	if meta["hostname"].S != "node-a.example.com" || len(meta) != 1 {
		t.Fatalf("metadata: %v", slots.A[1].A[2].A[3])
	}
	// SHARDS: tls-port next to port, hostname field, ip "" for the unknown one
	shards := cn.do("CLUSTER", "SHARDS")
	d := ctAsMap(t, ctAsMap(t, shards.A[1])["nodes"].A[0])
	if d["port"].I != 7002 || d["tls-port"].I != 17002 || d["hostname"].S != "node-a.example.com" || d["endpoint"].S != "10.0.0.2" {
		t.Fatalf("shards node: %v", d)
	}
	if g := ctWalkShards(t, shards, plain, true); g["10.0.0.2:17002"].nodes == nil {
		t.Fatalf("tls walk must use the tls port: %v", g)
	}
	if d := ctAsMap(t, ctAsMap(t, shards.A[3])["nodes"].A[0]); d["ip"].S != "" || d["endpoint"].S != "" || d["endpoint"].T != '$' {
		t.Fatalf("unknown ip node: %v", d)
	}
	// TLS clients get the tls port in SLOTS and redirects
	c.TLSClients = true
	if p := cn.do("CLUSTER", "SLOTS").A[1].A[2].A[1]; p.I != 17002 {
		t.Fatalf("tls port in SLOTS: %v", p)
	}
	ctWantErr(t, cn.do("GET", "bar"), "MOVED 5061 10.0.0.2:17002")
	c.TLSClients = false

	// preferred endpoint type hostname: nodes without hostname are "?", ip moves to the metadata
	c.PreferredEndpoint = "hostname"
	for _, proto := range []int{2, 3} {
		cn := ctDial(t, w, plain)
		if proto == 3 {
			cn = ctDial3(t, w, plain)
		}
		slots = cn.do("CLUSTER", "SLOTS")
		if slots.A[0].A[2].A[0].S != "?" || slots.A[1].A[2].A[0].S != "node-a.example.com" {
			t.Fatalf("hostname endpoints: %v", slots)
		}
		if meta := ctAsMap(t, slots.A[1].A[2].A[3]); meta["ip"].S != "10.0.0.2" || len(meta) != 1 {
			t.Fatalf("metadata: %v", meta)
		}
		g = ctWalkSlots(slots, plain)
		if len(g) != 1 || g["node-a.example.com:7002"].nodes == nil {
			t.Fatalf("walk must skip '?' masters: %v", g)
		}
		gs := ctWalkShards(t, cn.do("CLUSTER", "SHARDS"), plain, false)
		if len(gs) != 1 || gs["node-a.example.com:7002"].nodes == nil {
			t.Fatalf("shards walk must skip '?': %v", gs)
		}
		ctWantErr(t, cn.do("GET", "bar"), "MOVED 5061 node-a.example.com:7002")
		ctWantErr(t, cn.do("GET", "hello"), "MOVED 866 ?:7001")
	}
	// a single node may prefer differently from the cluster default
	c.NodeOpts(plain).PreferredEndpoint = "ip"
	if ep := ctDial(t, w, plain).do("CLUSTER", "SLOTS").A[1].A[2].A[0]; ep.S != "10.0.0.2" {
		t.Fatalf("per node preference: %v", ep)
	}
	c.NodeOpts(plain).PreferredEndpoint = ""

	// unknown-endpoint: NULL in SLOTS (both protocols), "" in SHARDS and redirects
	c.PreferredEndpoint = "unknown-endpoint"
	for _, proto := range []int{2, 3} {
		cn := ctDial(t, w, plain)
		if proto == 3 {
			cn = ctDial3(t, w, plain)
		}
		slots = cn.do("CLUSTER", "SLOTS")
		ep := slots.A[2].A[2].A[0]
		if !(ep.T == '_' || ep.T == '$' && ep.Null) {
			t.Fatalf("proto %d: NULL endpoint expected: %v", proto, ep)
		}
		if meta := ctAsMap(t, slots.A[1].A[2].A[3]); meta["ip"].S != "10.0.0.2" || meta["hostname"].S != "node-a.example.com" {
			t.Fatalf("metadata: %v", meta)
		}
		g = ctWalkSlots(slots, plain)
		if len(g) != 4 || g["10.0.0.3:7001"].nodes == nil {
			t.Fatalf("NULL endpoints fall back to the asked host: %v", g)
		}
		d := ctAsMap(t, ctAsMap(t, cn.do("CLUSTER", "SHARDS").A[0])["nodes"].A[0])
		if d["endpoint"].T != '$' || d["endpoint"].Null || d["endpoint"].S != "" || d["ip"].S != "2001:db8::1" {
			t.Fatalf("SHARDS endpoint must be an empty string: %v", d)
		}
		ctWantErr(t, cn.do("GET", "bar"), "MOVED 5061 :7002")
	}
	c.PreferredEndpoint = ""

	// per listed node overrides
	c.NodeOpts(hostA).EndpointOverride = "?"
	c.NodeOpts(v6).EndpointOverride = EndpointNull
	c.NodeOpts(noip).EndpointOverride = EndpointEmpty
	slots = cn.do("CLUSTER", "SLOTS")
	if slots.A[1].A[2].A[0].S != "?" || slots.A[0].A[2].A[0].T != '_' || slots.A[3].A[2].A[0].T != '$' || slots.A[3].A[2].A[0].S != "" {
		t.Fatalf("overrides: %v", slots)
	}
	c.NodeOpts(v6).AnnounceIP = "192.168.0.1"
	c.NodeOpts(v6).EndpointOverride = ""
	c.NodeOpts(v6).Port = 9999
	ctWantErr(t, cn.do("GET", "hello"), "MOVED 866 192.168.0.1:9999")

	// TLS only cluster: no "port" in SHARDS
	c.NodeOpts(hostA).NoTCPPort = true
	d = ctAsMap(t, ctAsMap(t, cn.do("CLUSTER", "SHARDS").A[1])["nodes"].A[0])
	if _, has := d["port"]; has || d["tls-port"].I != 17002 {
		t.Fatalf("tls only node: %v", d)
	}
	ctNoGaps(t, w)
}

func TestRawTopologyOverrideAndOldVersions(t *testing.T) {
	w, c, _ := ctNewTestCluster()
	raw := resp.Arr(resp.Arr(resp.Int(0), resp.Int(5)), resp.Bulk("garbage"))
	c.NodeOpts(ctM1).RawSlots = &raw
	rawSh := resp.Err("ERR boom")
	c.NodeOpts(ctM1).RawShards = &rawSh
	a := ctDial(t, w, ctM1)
	if v := a.do("CLUSTER", "SLOTS"); !reflect.DeepEqual(v, raw) {
		t.Fatalf("raw slots: %v", v)
	}
	ctWantErr(t, a.do("CLUSTER", "SHARDS"), "ERR boom")
	if v := ctDial(t, w, ctM2).do("CLUSTER", "SLOTS"); len(v.A) != 3 {
		t.Fatal("other nodes answer normally")
	}
	// Redis 6 has no CLUSTER SHARDS and no metadata element in CLUSTER SLOTS
	w.Nodes[ctM2].Version = "6.2.14"
	b := ctDial(t, w, ctM2)
	if v := b.do("CLUSTER", "SHARDS"); !v.IsErr() {
		t.Fatalf("SHARDS on 6.2: %v", v)
	}
	if v := b.do("CLUSTER", "SLOTS"); len(v.A[0].A[2].A) != 3 {
		t.Fatalf("SLOTS on 6.2: %v", v)
	}
	ctNoGaps(t, w)
}

func TestClusterMiscCommands(t *testing.T) {
	w, c, _ := ctNewTestCluster()
	a := ctDial3(t, w, ctM1)
	hello := ctAsMap(t, a.do("HELLO", "3"))
	if hello["mode"].S != "cluster" || hello["role"].S != "master" {
		t.Fatalf("HELLO: %v", hello)
	}
	if ctAsMap(t, ctDial(t, w, ctR1).do("HELLO", "3"))["role"].S != "replica" {
		t.Fatal("replica role in HELLO")
	}
	ctWantStr(t, a.do("CLUSTER", "MYID"), w.Nodes[ctM1].RunID)
	ctWantInt(t, a.do("CLUSTER", "KEYSLOT", "foo"), 12182)
	ctWantInt(t, a.do("CLUSTER", "KEYSLOT", "x{foo}y"), 12182)
	ctWantErr(t, a.do("CLUSTER", "COUNTKEYSINSLOT", "16384"), "ERR Invalid slot")
	a.do("SET", "bar", "1")
	a.do("SET", "{bar}2", "1")
	if v := a.do("CLUSTER", "GETKEYSINSLOT", "5061", "10"); len(v.A) != 2 || v.A[0].S != "bar" {
		t.Fatalf("GETKEYSINSLOT: %v", v)
	}
	c.MigrateStart(5061, ctM2)
	nodes := a.do("CLUSTER", "NODES")
	if nodes.T != '=' {
		t.Fatalf("CLUSTER NODES is a verbatim string under RESP3: %v", nodes)
	}
	lines := strings.Split(strings.TrimSpace(strings.TrimPrefix(nodes.S, "txt:")), "\n")
	if len(lines) != 6 {
		t.Fatalf("nodes: %q", lines)
	}
	if !strings.Contains(lines[0], "10.0.0.1:7001@17001 myself,master - 0 0 1 connected 0-5460 [5061->-"+w.Nodes[ctM2].RunID+"]") {
		t.Fatalf("myself line: %q", lines[0])
	}
	if !strings.Contains(lines[1], "10.0.0.1:7101@17101 slave "+w.Nodes[ctM1].RunID) {
		t.Fatalf("replica line: %q", lines[1])
	}
	if !strings.Contains(ctDial(t, w, ctM2).do("CLUSTER", "NODES").S, "[5061-<-"+w.Nodes[ctM1].RunID+"]") {
		t.Fatal("importing mark")
	}
	info := a.do("CLUSTER", "INFO").S
	for _, want := range []string{"cluster_state:ok", "cluster_slots_assigned:16384", "cluster_known_nodes:6", "cluster_size:3"} {
		if !strings.Contains(info, want) {
			t.Fatalf("CLUSTER INFO lacks %s: %q", want, info)
		}
	}
	ctNoGaps(t, w)
	if v := a.do("CLUSTER", "FAILOVER"); !v.IsErr() || len(w.Gaps) != 1 {
		t.Fatalf("unmodelled subcommand must be a gap: %v %q", v, w.Gaps)
	}
}

func TestNonMemberNode(t *testing.T) {
	w, _, _ := ctNewTestCluster()
	n := w.AddNode("10.0.0.9:7009")
	n.ClusterEnabled = true
	a := ctDial(t, w, "10.0.0.9:7009")
	ctWantErr(t, a.do("GET", "foo"), "CLUSTERDOWN Hash slot not served")
	ctWantStr(t, a.do("PING"), "PONG")
}

func TestShardedPubSub(t *testing.T) {
	w, c, _ := ctNewTestCluster()
	ch := "foo" // slot 12182 on ctM3
	a := ctDial3(t, w, ctM1)
	ctWantErr(t, a.do("SSUBSCRIBE", ch), "MOVED 12182 10.0.0.3:7003")
	ctWantErr(t, a.do("SPUBLISH", ch, "x"), "MOVED 12182 10.0.0.3:7003")
	ctWantErr(t, a.do("SUNSUBSCRIBE", ch), "MOVED 12182 10.0.0.3:7003")
	ctWantErr(t, a.do("SSUBSCRIBE", "foo", "bar"), "CROSSSLOT Keys in request don't hash to the same slot")
	sub3 := ctDial3(t, w, ctM3)
	sub3.do("SSUBSCRIBE", ch, "{foo}2")
	if p := sub3.takePushes(); len(p) != 2 || p[0].T != '>' || p[0].A[0].S != "ssubscribe" || p[1].A[2].I != 2 {
		t.Fatalf("ssubscribe pushes: %v", p)
	}
	// replicas accept SSUBSCRIBE without READONLY; RESP2 connection
	sub2 := ctDial(t, w, ctR3)
	sub2.do("SSUBSCRIBE", ch)
	if p := sub2.takePushes(); len(p) != 1 || p[0].T != '*' || p[0].A[0].S != "ssubscribe" {
		t.Fatalf("RESP2 ssubscribe on replica: %v", p)
	}
	pub := ctDial(t, w, ctM3)
	ctWantInt(t, pub.do("SPUBLISH", ch, "hi"), 2)
	if p := sub3.takePushes(); len(p) != 1 || p[0].A[0].S != "smessage" || p[0].A[2].S != "hi" {
		t.Fatalf("smessage: %v", p)
	}
	sub2.takePushes()
	// the slot moves away: subscribers on the old shard are unsubscribed
	c.MoveSlot(12182, ctM1)
	p := sub3.takePushes()
	if len(p) != 2 || p[0].T != '>' || p[0].A[0].S != "sunsubscribe" || p[0].A[1].S != "foo" || p[0].A[2].I != 1 || p[1].A[1].S != "{foo}2" || p[1].A[2].I != 0 {
		t.Fatalf("sunsubscribe pushes: %v", p)
	}
	if p := sub2.takePushes(); len(p) != 1 || p[0].T != '*' || p[0].A[0].S != "sunsubscribe" || p[0].A[2].I != 0 {
		t.Fatalf("RESP2 sunsubscribe: %v", p)
	}
	// RESP2 connection left the subscribed state
	ctWantErr(t, sub2.do("GET", "bar"), "MOVED 5061 10.0.0.1:7001")
	ctWantErr(t, sub3.do("SSUBSCRIBE", ch), "MOVED 12182 10.0.0.1:7001")
	a.do("SSUBSCRIBE", ch)
	if p := a.takePushes(); len(p) != 1 || p[0].A[0].S != "ssubscribe" {
		t.Fatalf("subscribe on the new owner: %v", p)
	}
	// failover drops the shard subscriptions too (Redis 7.2), unless configured otherwise
	c.Failover(ctM1, ctR1, false)
	if p := a.takePushes(); len(p) != 1 || p[0].A[0].S != "sunsubscribe" {
		t.Fatalf("failover sunsubscribe: %v", p)
	}
	c.KeepShardSubsOnFailover = true
	b := ctDial3(t, w, ctR1)
	b.do("SSUBSCRIBE", ch)
	b.takePushes()
	c.Failover(ctR1, ctM1, false)
	if p := b.takePushes(); len(p) != 0 {
		t.Fatalf("subscriptions should have been kept: %v", p)
	}
	// during a migration shard channels are served by the source without key checks
	c.MigrateStart(12182, ctM2)
	ctWantInt(t, ctDial(t, w, ctM1).do("SPUBLISH", ch, "x"), 1)
	ctNoGaps(t, w)
}

func TestBlockedClientRedirectedWhenSlotMoves(t *testing.T) {
	w, c, _ := ctNewTestCluster()
	a := ctDial(t, w, ctM1)
	w.Feed(a.sc, ctEncodeCmd([]string{"BLPOP", "bar", "0"}))
	if r := a.drain(); len(r) != 0 {
		t.Fatalf("should block: %v", r)
	}
	c.MoveSlot(5061, ctM2)
	r := a.drain()
	if len(r) != 1 {
		t.Fatalf("blocked client must be answered: %v", r)
	}
	ctWantErr(t, r[0], "MOVED 5061 10.0.0.2:7002")
	ctWantStr(t, a.do("PING"), "PONG")
}

func TestForget(t *testing.T) {
	w, c, _ := ctNewTestCluster()
	c.MoveSlots(10923, 16383, ctM1)
	c.Forget(ctM3)
	a := ctDial(t, w, ctM1)
	if g := ctWalkSlots(a.do("CLUSTER", "SLOTS"), ctM1); len(g) != 2 || !reflect.DeepEqual(g[ctM1].slots, [][2]int64{{0, 5460}, {10923, 16383}}) {
		t.Fatalf("after forget: %v", g)
	}
	if !reflect.DeepEqual(c.Members(), []string{ctM1, ctR1, ctM2, ctR2}) {
		t.Fatalf("members: %v", c.Members())
	}
	ctWantNil(t, a.do("GET", "foo"))
}

// the whole model is deterministic: the same script yields byte-identical output
func TestClusterDeterminism(t *testing.T) {
	run := func() string {
		w, c, clk := ctNewTestCluster()
		var sb strings.Builder
		conns := map[string]*ctTconn{}
		for _, a := range c.Members() {
			conns[a] = ctDial3(t, w, a)
			conns[a].do("CLIENT", "TRACKING", "ON")
			conns[a].do("READONLY")
		}
		keys := []string{"foo", "bar", "hello", "{t}a", "{t}b", "x", "y", "z"}
		step := func() {
			names := make([]string, 0, len(conns))
			for a := range conns {
				names = append(names, a)
			}
			sort.Strings(names)
			for _, a := range names {
				for _, k := range keys {
					fmt.Fprintln(&sb, a, k, conns[a].do("GET", k), conns[a].do("SET", k, a))
				}
				fmt.Fprintln(&sb, conns[a].do("CLUSTER", "SLOTS"), conns[a].do("CLUSTER", "SHARDS"), conns[a].do("CLUSTER", "NODES"))
				fmt.Fprintln(&sb, conns[a].takePushes())
			}
		}
		step()
		c.FreezeView(ctM2)
		c.MigrateStart(KeySlot("{t}a"), ctM1)
		c.MigrateSomeKeys(KeySlot("{t}a"), 1)
		step()
		c.MigrateFinish(KeySlot("{t}a"))
		clk.Advance(time.Second)
		c.Failover(ctM3, ctR3, true)
		step()
		c.SyncAll()
		c.MoveSlots(0, 16383, ctM2)
		step()
		return sb.String()
	}
	a, b := run(), run()
	if a != b {
		t.Fatal("two identical runs differ")
	}
	if !strings.Contains(a, "MOVED") || !strings.Contains(a, "ASK") {
		t.Fatal("scenario did not exercise redirects")
	}
}
