package fakeredis

import (
	"testing"
	"time"
)

// Mods carries the state of the key right after each modification (used by the cache-aside oracle to rebuild the
// history of lock placeholders).
func TestModsRecordPostState(t *testing.T) {
	w, clk, n, c := single(t)
	c.want(`nil`, "SET", "k", "ph1", "NX", "GET", "PX", "2000") // taken: no old value
	c.want(`"ph1"`, "SET", "k", "ph2", "NX", "GET", "PX", "2000")
	script := `if redis.call("GET",KEYS[1]) == ARGV[1] then return redis.call("SET",KEYS[1],ARGV[2],"PX",ARGV[3]) else return 0 end`
	c.wantEval(`+"OK"`, script, []string{"k"}, "ph1", "value", "5000")
	w.Ghost("a:1", "DEL", "k")
	c.want(`+"OK"`, "SET", "id", "", "PX", "1000")
	clk.advance(1500 * time.Millisecond)
	w.Tick() // active expiry
	mods := n.DBs.Mods
	type st struct {
		key     string
		present bool
		str     string
		conn    int
	}
	want := []st{{"k", true, "ph1", 0}, {"k", true, "value", 0}, {"k", false, "", -1}, {"id", true, "", 0}, {"id", false, "", -1}}
	if len(mods) != len(want) {
		t.Fatalf("got %d modifications, want %d: %+v", len(mods), len(want), mods)
	}
	for i, x := range want {
		m := mods[i]
		if m.Key != x.key || m.Present != x.present || m.Str != x.str || m.Conn != x.conn {
			t.Errorf("modification %d: got %+v, want %+v", i, m, x)
		}
		if i > 0 && !(mods[i-1].Seq < m.Seq) {
			t.Errorf("modification %d: sequence numbers not increasing", i)
		}
	}
	eq(t, "expiry of the placeholder", mods[0].ExpireAt.Sub(mods[0].At), 2*time.Second)
	eq(t, "expiry of the value", mods[1].ExpireAt.Sub(mods[1].At), 5*time.Second)
	eq(t, "time of the expiry", mods[4].At.Sub(mods[3].At), 1500*time.Millisecond)
	noGaps(t, w)
}
