package lualite

import (
	"encoding/json"
	"errors"
	"fmt"
	"os"
	"regexp"
	"strconv"
	"strings"
	"testing"
)

// render turns a Lua value into a compact string for comparisons in tests.
func render(v Value) string {
	switch x := v.(type) {
	case nil:
		return "nil"
	case bool:
		return fmt.Sprint(x)
	case float64:
		return fmtNumber(x)
	case string:
		return fmt.Sprintf("%q", x)
	case *Table:
		var parts []string
		for i := 1; i <= x.Len(); i++ {
			parts = append(parts, render(x.Get(float64(i))))
		}
		for _, k := range x.Keys() {
			if i, ok := arrayIndex(k); !ok || i > x.Len() {
				parts = append(parts, fmt.Sprintf("%v=%s", k, render(x.Get(k))))
			}
		}
		return "{" + strings.Join(parts, ",") + "}"
	case *Function:
		return "function"
	}
	return fmt.Sprintf("?%T", v)
}

func runScript(t *testing.T, src string, keys, argv []string, host Host) (Value, error) {
	t.Helper()
	c, err := Compile(src)
	if err != nil {
		return nil, err
	}
	return c.Run(keys, argv, host)
}

func TestLanguage(t *testing.T) {
	cases := []struct{ name, src, want string }{
		// literals, arithmetic, precedence
		{"no return", `local a = 1`, `nil`},
		{"arith", `return 1 + 2 * 3 - 4 / 2`, `5`},
		{"precedence pow unary", `return -2 ^ 2`, `-4`},
		{"pow right assoc", `return 2 ^ 3 ^ 2`, `512`},
		{"concat right assoc", `return 1 .. 2 .. 3`, `"123"`},
		{"concat vs arith", `return 1 + 2 .. 3 * 2`, `"36"`},
		{"cmp vs concat", `return "a" .. "b" == "ab"`, `true`},
		{"and or precedence", `return 1 == 2 or 3 < 4 and "yes"`, `"yes"`},
		{"not precedence", `return not 1 == 2`, `false`},
		{"paren", `return (1 + 2) * 3`, `9`},
		{"mod", `return {7 % 3, -7 % 3, 7 % -3, 5.5 % 2}`, `{1,2,-2,1.5}`},
		{"div", `return 7 / 2`, `3.5`},
		{"hex exp", `return {0x10, 0xff, 1e2, 1.5e-1, .5, 3.}`, `{16,255,100,0.15,0.5,3}`},
		{"string coercion arith", `return "10" + 5 * "2" - " 3 "`, `17`},
		{"hex string coercion", `return "0x10" + 0`, `16`},
		{"number coercion concat", `return 1.5 .. "|" .. 10 .. "|" .. 2^53`, `"1.5|10|9.007199254741e+15"`},
		{"length", `return {#"abc", #{1,2,3}, #{}, #""}`, `{3,3,0,0}`},
		{"unary minus string", `return -"2"`, `-2`},
		// strings
		{"escapes", `return "a\n\r\t\\\"\'\65\066\0z"`, `"a\n\r\t\\\"'AB\x00z"`},
		{"single quotes", `return 'it"s'`, `"it\"s"`},
		{"long string", "return [[\nline1\nline2]]", `"line1\nline2"`},
		{"long string level", `return [==[a]]b]==]`, `"a]]b"`},
		{"comments", "--[[ block\ncomment ]] local a = 1 -- line\n--[==[ x ]] ]==]\nreturn a", `1`},
		// equality, truthiness
		{"eq types", `return {1 == "1", "a" == "a", nil == false, 0 == -0, {} == {}}`, `{false,true,false,true,false}`},
		{"ne", `return 1 ~= 2`, `true`},
		{"string compare", `return {"a" < "b", "a" <= "a", "b" > "a", "Z" < "a", "" < "a"}`, `{true,true,true,true,true}`},
		{"truthiness", `local r = {} for _, v in ipairs({0, "", {}}) do if v then r[#r+1] = 1 end end if nil or false then r[#r+1] = 2 end return r`, `{1,1,1}`},
		{"and or values", `return {nil and 1, false and 1, 0 and 1, nil or "d", false or nil, 1 or error("x"), (false and 1) or 2}`, `{nil,false,1,"d",nil,1,2}`},
		{"ternary idiom", `local x = (3 % 2 == 1) and "odd" or nil return x`, `"odd"`},
		// locals, assignment
		{"multi local", `local a, b, c = 1, 2 return {a, b, c == nil}`, `{1,2,true}`},
		{"multi assign swap", `local a, b = 1, 2 a, b = b, a return {a, b}`, `{2,1}`},
		{"assign extra values", `local a a = 1, 2, 3 return a`, `1`},
		{"shadowing", `local v = 1 do local v = 2 end if true then local v = 3 end return v`, `1`},
		{"table fields", `local t = {} t.x = 1 t["y"] = 2 t[1] = "a" t.x = t.x + 1 return {t.x, t.y, t[1], t.z == nil}`, `{2,2,"a",true}`},
		{"nested tables", `local t = {a = {b = {c = function(x) return x * 2 end}}} return t.a.b.c(21)`, `42`},
		{"ARGV assign", `ARGV[2] = tostring(tonumber(ARGV[2]) + 1) return ARGV`, `{"a","8"}`},
		{"global assign", `x = 5 function inc() x = x + 1 end inc() return x`, `6`},
		// control flow
		{"if elseif else", `local r = {} for i = 1, 3 do if i == 1 then r[i] = "a" elseif i == 2 then r[i] = "b" else r[i] = "c" end end return r`, `{"a","b","c"}`},
		{"numeric for", `local s = 0 for i = 1, 10 do s = s + i end return s`, `55`},
		{"for step", `local r = {} for i = 1, 10, 4 do r[#r+1] = i end return r`, `{1,5,9}`},
		{"for negative step", `local r = {} for i = 3, 1, -1 do r[#r+1] = i end return r`, `{3,2,1}`},
		{"for empty", `local n = 0 for i = 2, 1 do n = n + 1 end for i = 1, 2, -1 do n = n + 1 end return n`, `0`},
		{"for float step", `local r = {} for i = 1, 2, 0.5 do r[#r+1] = i end return r`, `{1,1.5,2}`},
		{"for var copy", `local r = {} for i = 1, 3 do local j = i i = i * 10 r[#r+1] = i end return r`, `{10,20,30}`},
		{"for string bounds", `local n = 0 for i = "1", "3" do n = n + i end return n`, `6`},
		{"while", `local i, s = 0, 0 while i < 5 do i = i + 1 s = s + i end return s`, `15`},
		{"repeat sees locals", `local i = 0 repeat local done = i >= 3 i = i + 1 until done return i`, `4`},
		{"break nested", `local r = {} for i = 1, 3 do for j = 1, 3 do if j == 2 then break end r[#r+1] = i * 10 + j end end return r`, `{11,21,31}`},
		{"break while", `local i = 0 while true do i = i + 1 if i > 4 then break end end return i`, `5`},
		{"break repeat", `local i = 0 repeat i = i + 1 if i == 2 then break end until false return i`, `2`},
		{"semicolons", `local a = 1; local b = 2; if a then return a + b end; return 0`, `3`},
		{"return in block", `do return 7 end`, `7`},
		{"ipairs stops at nil", `local n = 0 for i, v in ipairs({1, 2, nil, 4}) do n = n + v end return n`, `3`},
		{"pairs order", `local t = {10, 20, z = 1, a = 2, [100] = 3, [-1] = 4} local r = {} for k, v in pairs(t) do r[#r+1] = k end return r`, `{1,2,-1,100,"a","z"}`},
		{"pairs delete during", `local t = {a = 1, b = 2, c = 3} local n = 0 for k in pairs(t) do t[k] = nil n = n + 1 end return {n, next(t) == nil}`, `{3,true}`},
		{"next", `local t = {5, x = 1} local k1, v1 = next(t) local k2, v2 = next(t, k1) return {k1, v1, k2, v2, next(t, k2) == nil}`, `{1,5,"x",1,true}`},
		{"custom iterator", `local function range(n) local i = 0 return function() i = i + 1 if i <= n then return i end end end local s = 0 for v in range(4) do s = s + v end return s`, `10`},
		// functions
		{"closure counter", `local function counter() local n = 0 return function() n = n + 1 return n end end local c1, c2 = counter(), counter() c1() c1() return {c1(), c2()}`, `{3,1}`},
		{"closure per iteration", `local fs = {} for i = 1, 3 do fs[i] = function() return i end end return {fs[1](), fs[2](), fs[3]()}`, `{1,2,3}`},
		{"closure does not see later local", `x = "global" local function get() return x end local x = "local" return {get(), x}`, `{"global","local"}`},
		{"local initializer sees outer", `local x = 1 do local x = x + 1 return x end`, `2`},
		{"redeclared local keeps old closure", `local v = 1 local function old() return v end local v = 2 return {old(), v}`, `{1,2}`},
		{"closure shares variable", `local x = 1 local function get() return x end x = 2 return get()`, `2`},
		{"recursion", `local function fib(n) if n < 2 then return n end return fib(n - 1) + fib(n - 2) end return fib(15)`, `610`},
		{"recursive global function", `function fact(n) if n <= 1 then return 1 end return n * fact(n - 1) end return fact(10)`, `3628800`},
		{"local f not visible in own initializer", `local ok = pcall(function() local f = function() return f end return f() end) return ok`, `false`},
		{"deep tail recursion", `local function loop(n, acc) if n == 0 then return acc end return loop(n - 1, acc + 1) end return loop(100000, 0)`, `100000`},
		{"multiple returns", `local function f() return 1, 2, 3 end local a, b, c, d = f() return {a, b, c, d == nil}`, `{1,2,3,true}`},
		{"multi truncated in middle", `local function f() return 1, 2 end return {f(), f()}`, `{1,1,2}`},
		{"multi truncated by parens", `local function f() return 1, 2 end return {(f())}`, `{1}`},
		{"script result is first value", `return 7, 8, 9`, `7`},
		{"missing args are nil", `local function f(a, b) return b == nil end return f(1)`, `true`},
		{"varargs", `local function f(...) local a, b = ... return select('#', ...), a, b end return {f(5, 6, 7)}`, `{3,5,6}`},
		{"varargs table", `local function f(x, ...) local t = {...} return #t + x end return f(10, "a", "b")`, `12`},
		{"varargs pass through", `local function g(...) return ... end local function f(...) return g(...) end return {f(1, nil, 3)}`, `{1,nil,3}`},
		{"select", `return {select(2, "a", "b", "c")}`, `{"b","c"}`},
		{"select negative", `return {select(-1, "a", "b", "c")}`, `{"c"}`},
		{"select count with nils", `return select('#', nil, nil)`, `2`},
		{"method call", `local o = {n = 2} function o:add(x) self.n = self.n + x return self.n end return o:add(3)`, `5`},
		{"string method", `local s = "hello" return {s:len(), s:upper(), ("x"):rep(3)}`, `{5,"HELLO","xxx"}`},
		{"call with string and table literal", `local function f(x) return type(x) end return {f"s", f{}}`, `{"string","table"}`},
		{"dotted function name", `local m = {sub = {}} function m.sub.f(a) return a + 1 end return m.sub.f(1)`, `2`},
		// tables
		{"constructor forms", `local k = "dyn" local t = {1, 2; x = 3, [k] = 4, [10] = 5, 6} return t`, `{1,2,6,10=5,dyn=4,x=3}`},
		{"constructor expands last call", `local function f() return 1, 2 end return {x = 1, f(), f()}`, `{1,1,2,x=1}`},
		{"constructor trailing nil", `return #{1, 2, nil}`, `2`},
		{"insert append", `local t = {} table.insert(t, "a") table.insert(t, "b") return t`, `{"a","b"}`},
		{"insert shift", `local t = {1, 2, 3} table.insert(t, 1, 0) table.insert(t, 3, 1.5) return t`, `{0,1,1.5,2,3}`},
		{"insert at end pos", `local t = {1} table.insert(t, 2, 2) return t`, `{1,2}`},
		{"insert boolean", `local t = {} table.insert(t, 1 == 1) table.insert(t, false) return {#t, t[1], t[2]}`, `{2,true,false}`},
		{"remove last", `local t = {1, 2, 3} local v = table.remove(t) return {v, #t}`, `{3,2}`},
		{"remove shift", `local t = {"a", "b", "c", "d"} local v = table.remove(t, 2) return {v, #t, t[1], t[2], t[3], t[4] == nil}`, `{"b",3,"a","c","d",true}`},
		{"remove empty", `local t = {} return {table.remove(t) == nil, #t, select('#', table.remove(t))}`, `{true,0,0}`},
		{"remove out of range", `local t = {1, 2} return {table.remove(t, 5) == nil, #t}`, `{true,2}`},
		{"len after nil assignment", `local t = {1, 2, 3} t[3] = nil local a = #t t[#t + 1] = 9 t[#t + 1] = 8 return {a, #t, t[4]}`, `{2,4,8}`},
		{"len grows from hash", `local t = {} t[3] = "c" t[2] = "b" local a = #t t[1] = "a" return {a, #t}`, `{0,3}`},
		{"remove(ARGV) idiom", `local e = (#ARGV % 2 == 1) and table.remove(ARGV) or nil return {e == nil, #ARGV}`, `{true,2}`},
		{"concat", `return {table.concat({1, "b", 3}, ","), table.concat({}), table.concat({"x", "y"}), table.concat({1, 2, 3}, "-", 2, 3)}`, `{"1,b,3","","xy","2-3"}`},
		{"unpack", `local a, b, c = unpack({1, 2, 3}) return {a, b, c, select('#', unpack({})), select('#', unpack({1, 2, 3}, 2)), table.unpack({7, 8}, 2, 2)}`, `{1,2,3,0,2,8}`},
		{"unpack as last arg", `local function f(...) return select('#', ...) end return f("HSET", "k", unpack({"a", "b", "c"}))`, `5`},
		{"unpack not last is truncated", `local function f(...) return select('#', ...) end return f(unpack({"a", "b", "c"}), "z")`, `2`},
		// builtins
		{"tostring", `return {tostring(3), tostring(3.5), tostring(-0), tostring(1e15), tostring(2^53), tostring(1e100), tostring(0.1), tostring(-7.25), tostring(100000000000000)}`,
			`{"3","3.5","-0","1e+15","9.007199254741e+15","1e+100","0.1","-7.25","1e+14"}`},
		{"tostring misc", `return {tostring(nil), tostring(true), tostring("s"), tostring(1/0), tostring(-1/0), tostring(10 / 2), tostring(2^31)}`, `{"nil","true","s","inf","-inf","5","2147483648"}`},
		{"tonumber", `return {tonumber("10"), tonumber(" 10 "), tonumber("1e2"), tonumber("0x1F"), tonumber("-5.5"), tonumber(7), tonumber(".5")}`, `{10,10,100,31,-5.5,7,0.5}`},
		{"tonumber nil cases", `return {tonumber("") == nil, tonumber("abc") == nil, tonumber("1x") == nil, tonumber(nil) == nil, tonumber({}) == nil, tonumber(true) == nil, tonumber("1 2") == nil, tonumber("1e") == nil, tonumber(false) == nil}`,
			`{true,true,true,true,true,true,true,true,true}`},
		{"tonumber base", `return {tonumber("ff", 16), tonumber("101", 2), tonumber("zz", 36), tonumber("8", 8) == nil, tonumber("0x10", 16), tonumber(" 7 ", 8)}`, `{255,5,1295,true,16,7}`},
		{"tonumber of length", `return tonumber(#ARGV) - 1`, `1`},
		{"type", `return {type(nil), type(1), type("s"), type({}), type(type), type(true), type(function() end)}`, `{"nil","number","string","table","function","boolean","function"}`},
		{"math", `return {math.floor(3.7), math.floor(-3.2), math.ceil(3.2), math.ceil(-3.7), math.max(1, 5, 3), math.min(4, 2, 8), math.abs(-3), math.floor("2.5"), math.huge > 1e308}`, `{3,-4,4,-3,5,2,3,2,true}`},
		{"string lib", `return {string.len("abc"), string.sub("hello", 2, 4), string.sub("hello", -3), string.sub("hello", 2), string.sub("hello", 4, 100), string.sub("hello", 3, 2), string.sub("hello", 0), string.rep("ab", 3), string.rep("x", 0), string.lower("AbC"), string.upper("aBc"), string.reverse("abc")}`,
			`{3,"ell","llo","ello","lo","","hello","ababab","","abc","ABC","cba"}`},
		{"string byte char", `return {string.byte("A"), string.byte("abc", 2), select('#', string.byte("abc", 1, -1)), string.char(72, 105), select('#', string.byte("", 1))}`, `{65,98,3,"Hi",0}`},
		{"string find plain", `local r = {} local function add(...) for i = 1, select('#', ...) do r[#r + 1] = select(i, ...) end end add(string.find("hello world", "o w")) add(string.find("hello", "l", 1, true)) add(string.find("a.b", ".", 1, true)) add(string.find("hello", "xyz") == nil) add(string.find("hello", "l", 4)) add(string.find("abc", "")) add(string.find("abc", "c", -1)) return r`, `{5,7,3,3,2,2,true,4,4,1,0,3,3}`},
		{"string format", `return {string.format("%d-%s-%%", 42, "x"), string.format("%5.2f|%g|%g", 3.14159, 0.5, 1e20), string.format("%05d|%-4d|%x|%X", 42, 7, 255, 255), string.format("%s %s", 1, 2.5), string.format("%5s|%-5s|%.2s", "ab", "ab", "abcdef"), string.format("%d", 3.99), string.format("%f", 1), string.format("%e", 12345.678), string.format("%c%c", 72, 105), string.format("%i", -3)}`,
			`{"42-x-%"," 3.14|0.5|1e+20","00042|7   |ff|FF","1 2.5","   ab|ab   |ab","3","1.000000","1.234568e+04","Hi","-3"}`},
		{"assert passes values", `return {(assert("v")), assert(1, "m")}`, `{"v",1,"m"}`},
		{"redis replies", `return {redis.error_reply("ERR x").err, redis.status_reply("OK").ok, redis.log(redis.LOG_WARNING, "m") == nil, redis.setresp(2) == nil, redis.sha1hex("")}`, `{"ERR x","OK",true,true,"da39a3ee5e6b4b0d3255bfef95601890afd80709"}`},
		{"KEYS ARGV", `return {#KEYS, #ARGV, KEYS[1], ARGV[2], KEYS[2] == nil, type(ARGV[2])}`, `{1,2,"k1","7",true,"string"}`},
		// pcall
		{"pcall ok", `return {pcall(function(a, b) return a + b, "x" end, 1, 2)}`, `{true,3,"x"}`},
		{"pcall error string", `local ok, e = pcall(error, "boom", 0) return {ok, e}`, `{false,"boom"}`},
		{"pcall error position", "local ok, e = pcall(function()\n error('boom') end) return {ok, e}", `{false,"user_script:2: boom"}`},
		{"pcall error table", `local ok, e = pcall(error, {code = 7}) return {ok, e.code}`, `{false,7}`},
		{"pcall runtime error", `local ok, e = pcall(function() local t = nil return t.x end) return {ok, e}`, `{false,"user_script:1: attempt to index a nil value"}`},
		{"pcall nested", `local ok1, e1 = pcall(function() local ok2, e2 = pcall(error, "inner", 0) error("outer:" .. e2, 0) end) return {ok1, e1}`, `{false,"outer:inner"}`},
		{"pcall non function", `local ok, e = pcall(nil) return {ok, e}`, `{false,"user_script:1: attempt to call a nil value"}`},
		{"assert fails", `local ok, e = pcall(assert, false, "msg") local ok2, e2 = pcall(assert, nil) return {ok, e, ok2, e2}`, `{false,"msg",false,"assertion failed!"}`},
	}
	for _, tc := range cases {
		t.Run(tc.name, func(t *testing.T) {
			got, err := runScript(t, tc.src, []string{"k1"}, []string{"a", "7"}, nil)
			if err != nil {
				t.Fatalf("unexpected error %T: %v", err, err)
			}
			if render(got) != tc.want {
				t.Errorf("script %s\n got  %s\n want %s", tc.src, render(got), tc.want)
			}
		})
	}
}

func TestErrors(t *testing.T) {
	cases := []struct {
		name, src string
		kind      string // "script", "unsupported", "compile"
		contains  string
	}{
		{"error()", `error("boom")`, "script", "user_script:1: boom"},
		{"error level 0", `error("boom", 0)`, "script", "boom"},
		{"error table", `error({err = "MYERR custom"})`, "script", "MYERR custom"},
		{"error non-string", `error({1})`, "script", "(error object is a table value)"},
		{"error line", "local a = 1\nlocal b = 2\nerror('x')", "script", "user_script:3: x"},
		{"arith on nil", `local x return x + 1`, "script", "attempt to perform arithmetic on a nil value"},
		{"arith on bad string", `return "abc" + 1`, "script", "attempt to perform arithmetic on a string value"},
		{"arith on table", `return {} * 2`, "script", "attempt to perform arithmetic on a table value"},
		{"concat nil", `return "a" .. nil`, "script", "attempt to concatenate a nil value"},
		{"concat bool", `return true .. "a"`, "script", "attempt to concatenate a boolean value"},
		{"call nil", `local f f()`, "script", "attempt to call a nil value"},
		{"call nil field", `local t = {} t.missing(1)`, "script", "attempt to call a nil value"},
		{"tail call nil", `local f return f()`, "script", "attempt to call a nil value"},
		{"index nil", `local t return t.x`, "script", "attempt to index a nil value"},
		{"index number", `local t = 5 t.x = 1`, "script", "attempt to index a number value"},
		{"nil table key", `local t = {} t[nil] = 1`, "script", "table index is nil"},
		{"nan table key", `local t = {} t[0/0] = 1`, "script", "table index is NaN"},
		{"compare mixed", `return 1 < "2"`, "script", "attempt to compare number with string"},
		{"compare tables", `return {} < {}`, "script", "attempt to compare two table values"},
		{"compare nil", `return nil < 1`, "script", "attempt to compare nil with number"},
		{"length of nil", `return #nil`, "script", "attempt to get length of a nil value"},
		{"for non number", `for i = 1, "x" do end`, "script", "'for' limit must be a number"},
		{"undefined global", `return foo`, "script", "Script attempted to access nonexistent global variable 'foo'"},
		{"bad argument", `return math.floor("x")`, "script", "bad argument #1 to 'floor' (number expected, got string)"},
		{"bad argument missing", `return string.rep("x")`, "script", "bad argument #2 to 'rep' (number expected, got no value)"},
		{"insert arg count", `table.insert({}, 1, 2, 3)`, "script", "wrong number of arguments to 'insert'"},
		{"insert not table", `table.insert(nil, 1)`, "script", "bad argument #1 to 'insert' (table expected, got nil)"},
		{"concat bad value", `return table.concat({1, {}, 3})`, "script", "invalid value (at index 2) in table for 'concat'"},
		{"select range", `return select(0, 1)`, "script", "bad argument #1 to 'select' (index out of range)"},
		{"format bad option", `return string.format("%y", 1)`, "script", "invalid option '%y' to 'format'"},
		{"modify library", `string.len = nil`, "script", "Attempt to modify a readonly table"},
		{"infinite recursion", `local function f() return 1 + f() end return f()`, "script", "stack overflow"},
		{"redis.call bad arg", `redis.call("GET", {})`, "script", "Lua redis lib command arguments must be strings or integers"},
		{"redis.call no arg", `redis.call()`, "script", "Please specify at least one argument"},
		// syntax errors -> ScriptError from Compile
		{"syntax missing end", `if true then return 1`, "compile", "'end' expected near '<eof>'"},
		{"syntax bad expr", `local a = = 1`, "compile", "unexpected symbol near '='"},
		{"syntax stray token", `return 1 2`, "compile", "'<eof>' expected near '2'"},
		{"syntax not a statement", `1 + 1`, "compile", "unexpected symbol near '1'"},
		{"syntax expr statement", `local a a + 1`, "compile", "'=' expected near '+'"},
		{"syntax bad assignment target", `local a (a) = 1`, "compile", "syntax error near '='"},
		{"syntax ambiguous call", "local a = f\n(g)()", "compile", "ambiguous syntax"},
		{"syntax unfinished string", `return "abc`, "compile", "unfinished string"},
		{"syntax unfinished long string", `return [[abc`, "compile", "unfinished long string"},
		{"syntax malformed number", `return 12abc`, "compile", "malformed number near '12abc'"},
		{"syntax break outside loop", `break`, "compile", "no loop to break"},
		{"syntax break in function in loop", `while true do local f = function() break end end`, "compile", "no loop to break"},
		{"syntax vararg outside", `local function f() return ... end`, "compile", "cannot use '...' outside a vararg function"},
		{"syntax code after return", `return 1 local a = 2`, "compile", "'<eof>' expected near 'local'"},
		{"syntax bad char", `return 1 ! 2`, "compile", "unexpected symbol near '!'"},
		{"syntax goto-like", `local t = {} t.1 = 2`, "compile", "user_script:1:"},
		{"syntax line number", "local a = 1\n\nlocal b = = 2", "compile", "user_script:3:"},
		// harness gaps -> UnsupportedError
		{"unsupported setmetatable", `return setmetatable({}, {})`, "unsupported", "setmetatable"},
		{"unsupported cjson", `return cjson.encode({})`, "unsupported", "cjson"},
		{"unsupported string.gsub", `return string.gsub("a", "a", "b")`, "unsupported", "string.gsub"},
		{"unsupported gmatch method", `return ("a"):gmatch("a")`, "unsupported", "string.gmatch"},
		{"unsupported table.sort", `table.sort({})`, "unsupported", "table.sort"},
		{"unsupported math.random", `return math.random()`, "unsupported", "math.random"},
		{"unsupported redis member", `return redis.breakpoint()`, "unsupported", "redis.breakpoint"},
		{"unsupported find pattern", `return string.find("abc", "a.c")`, "unsupported", "string.find"},
		{"unsupported tostring table", `return tostring({})`, "unsupported", "tostring"},
		{"unsupported setresp 3", `redis.setresp(3)`, "unsupported", "setresp"},
		{"unsupported not catchable", `return pcall(function() return cjson.decode("1") end)`, "unsupported", "cjson"},
		{"unsupported format q", `return string.format("%q", "x")`, "unsupported", "%q"},
	}
	for _, tc := range cases {
		t.Run(tc.name, func(t *testing.T) {
			c, err := Compile(tc.src)
			if tc.kind == "compile" {
				var se *ScriptError
				if !errors.As(err, &se) {
					t.Fatalf("Compile: want *ScriptError, got %T %v", err, err)
				}
				if !strings.HasPrefix(se.Msg, "Error compiling script") || !strings.Contains(se.Msg, tc.contains) {
					t.Fatalf("Compile: message %q does not contain %q", se.Msg, tc.contains)
				}
				return
			}
			if err != nil {
				t.Fatalf("Compile: %v", err)
			}
			v, err := c.Run(nil, nil, &fakeRedis{})
			if err == nil {
				t.Fatalf("want error, got value %s", render(v))
			}
			var se *ScriptError
			var ue *UnsupportedError
			switch tc.kind {
			case "script":
				if !errors.As(err, &se) || !strings.Contains(se.Msg, tc.contains) {
					t.Fatalf("want ScriptError containing %q, got %T %v", tc.contains, err, err)
				}
			case "unsupported":
				if !errors.As(err, &ue) || !strings.Contains(ue.What, tc.contains) {
					t.Fatalf("want UnsupportedError containing %q, got %T %v", tc.contains, err, err)
				}
			}
		})
	}
}

func TestStepBudget(t *testing.T) {
	old := MaxSteps
	defer func() { MaxSteps = old }()
	MaxSteps = 10_000
	for _, src := range []string{`while true do end`, `return pcall(function() while true do end end)`, `for i = 0, 1, 0 do end return 1`, `for i = 1, 1, 0 do end`} {
		v, err := runScript(t, src, nil, nil, nil)
		if src == `for i = 0, 1, 0 do end return 1` {
			if err != nil || v != 1.0 {
				t.Errorf("%s: got %v, %v", src, v, err)
			}
			continue
		}
		var se *ScriptError
		if !errors.As(err, &se) || se.Msg != "script exceeded the step budget" {
			t.Errorf("%s: want step budget error, got %v", src, err)
		}
	}
	MaxSteps = old
	if v, err := runScript(t, `local s = 0 for i = 1, 100000 do s = s + i end return s`, nil, nil, nil); err != nil || v != 5000050000.0 {
		t.Errorf("got %v, %v", v, err)
	}
}

func TestToRedisArg(t *testing.T) {
	for _, tc := range []struct {
		in   Value
		want string
		ok   bool
	}{{"abc", "abc", true}, {"", "", true}, {3.0, "3", true}, {-0.0, "0", true}, {1e15, "1000000000000000", true},
		{9007199254740992.0, "9007199254740992", true}, {3.5, "3.5", true}, {0.1, "0.10000000000000001", true},
		{-2.0, "-2", true}, {1e20, "1e+20", true}, {nil, "", false}, {true, "", false}, {NewTable(), "", false}} {
		got, ok := ToRedisArg(tc.in)
		if got != tc.want || ok != tc.ok {
			t.Errorf("ToRedisArg(%v) = %q, %v; want %q, %v", tc.in, got, ok, tc.want, tc.ok)
		}
	}
}

func TestTableAPI(t *testing.T) {
	tb := NewTable()
	tb.Append("a")
	tb.Set(2.0, "b")
	tb.Set(4.0, "d")
	tb.Set("z", 1.0)
	tb.Set("k", true)
	tb.Set(-1.0, "neg")
	tb.Set(true, "bool")
	if tb.Len() != 2 {
		t.Fatalf("Len = %d, want 2", tb.Len())
	}
	tb.Set(3.0, "c") // joins 4 from the hash part
	if tb.Len() != 4 || tb.Get(4.0) != "d" {
		t.Fatalf("Len = %d, want 4", tb.Len())
	}
	if got := fmt.Sprint(tb.Keys()); got != "[1 2 3 4 -1 k z true]" {
		t.Fatalf("Keys = %s", got)
	}
	tb.Set(4.0, nil)
	tb.Set("z", nil)
	tb.Set("absent", nil)
	if tb.Len() != 3 || tb.Get("z") != nil || tb.Get(nil) != nil || tb.Get(99.0) != nil {
		t.Fatalf("after deletes: Len = %d", tb.Len())
	}
	tb.Set(2.0, nil) // hole: the border stays at the last non-nil slot
	tb.Set(3.0, nil)
	if tb.Len() != 1 {
		t.Fatalf("after hole + trim: Len = %d, want 1", tb.Len())
	}
}

func TestChunkIsReusable(t *testing.T) {
	c, err := Compile(`counter = (counter or 0) + 1 ARGV[1] = ARGV[1] .. "!" return ARGV[1]`)
	if err != nil {
		t.Fatal(err)
	}
	for i := 0; i < 3; i++ { // globals and ARGV do not leak between runs
		if _, err := c.Run(nil, []string{"a"}, nil); err == nil || !strings.Contains(err.Error(), "nonexistent global variable 'counter'") {
			t.Fatalf("run %d: %v", i, err)
		}
	}
	c, _ = Compile(`ARGV[1] = ARGV[1] .. "!" return ARGV[1]`)
	for i := 0; i < 3; i++ {
		if v, err := c.Run(nil, []string{"a"}, nil); err != nil || v != "a!" {
			t.Fatalf("run %d: %v %v", i, v, err)
		}
	}
}

// ---------------------------------------------------------------------------------------------------------------
// A tiny fake Redis used as Host. Conversions to Lua follow Redis: integer -> number, bulk -> string, nil -> false,
// status -> {ok=...}, array -> table.

type fakeRedis struct {
	strs   map[string]string
	hashes map[string]map[string]string
	docs   map[string]map[string]any // JSON documents (top-level fields only)
	expire map[string]int64          // absolute expiry in ms
	nowMs  int64
	usec   int64 // microsecond part reported by TIME
	log    []string
}

func newFakeRedis() *fakeRedis {
	return &fakeRedis{strs: map[string]string{}, hashes: map[string]map[string]string{}, docs: map[string]map[string]any{},
		expire: map[string]int64{}, nowMs: 1700000000000, usec: 123456}
}

var (
	errWrongType = errors.New("WRONGTYPE Operation against a key holding the wrong kind of value")
	errNotInt    = errors.New("ERR value is not an integer or out of range")
	errSyntax    = errors.New("ERR syntax error")
	statusOK     = func() Value { t := NewTable(); t.Set("ok", "OK"); return t }
)

func (r *fakeRedis) exists(k string) bool {
	_, s := r.strs[k]
	_, h := r.hashes[k]
	_, d := r.docs[k]
	return s || h || d
}

func (r *fakeRedis) del(k string) bool {
	ok := r.exists(k)
	delete(r.strs, k)
	delete(r.hashes, k)
	delete(r.docs, k)
	delete(r.expire, k)
	return ok
}

func (r *fakeRedis) incr(k string, by string, sign int64) (Value, error) {
	if _, ok := r.hashes[k]; ok {
		return nil, errWrongType
	}
	cur := int64(0)
	if s, ok := r.strs[k]; ok {
		n, err := strconv.ParseInt(s, 10, 64)
		if err != nil {
			return nil, errNotInt
		}
		cur = n
	}
	n, err := strconv.ParseInt(by, 10, 64)
	if err != nil {
		return nil, errNotInt
	}
	cur += sign * n
	r.strs[k] = strconv.FormatInt(cur, 10)
	return float64(cur), nil
}

func (r *fakeRedis) bitfield(a []string, readonly bool) (Value, error) {
	if _, ok := r.hashes[a[1]]; ok {
		return nil, errWrongType
	}
	out := NewTable()
	for i := 2; i < len(a); {
		op := strings.ToUpper(a[i])
		if (op != "GET" && op != "SET") || (op == "SET" && readonly) || a[i+1] != "u1" {
			return nil, errSyntax
		}
		off, err := strconv.ParseInt(a[i+2], 10, 64)
		if err != nil || off < 0 {
			return nil, errors.New("ERR bit offset is not an integer or out of range")
		}
		b := []byte(r.strs[a[1]])
		byteIdx, mask := int(off/8), byte(0x80>>(off%8))
		old := 0.0
		if byteIdx < len(b) && b[byteIdx]&mask != 0 {
			old = 1
		}
		out.Append(old)
		if op == "GET" {
			i += 3
			continue
		}
		for len(b) <= byteIdx {
			b = append(b, 0)
		}
		if a[i+3] == "1" {
			b[byteIdx] |= mask
		} else {
			b[byteIdx] &^= mask
		}
		r.strs[a[1]] = string(b)
		i += 4
	}
	return out, nil
}

func (r *fakeRedis) Call(a []string) (Value, error) {
	r.log = append(r.log, strings.Join(a, " "))
	switch cmd := strings.ToUpper(a[0]); cmd {
	case "GET":
		if _, ok := r.hashes[a[1]]; ok {
			return nil, errWrongType
		}
		if s, ok := r.strs[a[1]]; ok {
			return s, nil
		}
		return false, nil
	case "SET":
		nx, exp := false, int64(0)
		for i := 3; i < len(a); i++ {
			switch opt := strings.ToUpper(a[i]); opt {
			case "NX":
				nx = true
			case "PX", "PXAT":
				if i+1 >= len(a) {
					return nil, errSyntax
				}
				n, err := strconv.ParseInt(a[i+1], 10, 64)
				if err != nil {
					return nil, errNotInt
				}
				if exp = n; opt == "PX" {
					exp += r.nowMs
				}
				i++
			default:
				return nil, errSyntax
			}
		}
		if nx && r.exists(a[1]) {
			return false, nil
		}
		r.del(a[1])
		r.strs[a[1]] = a[2]
		if exp != 0 {
			r.expire[a[1]] = exp
		}
		return statusOK(), nil
	case "MSET":
		for i := 1; i+1 < len(a); i += 2 {
			r.del(a[i])
			r.strs[a[i]] = a[i+1]
		}
		return statusOK(), nil
	case "DEL", "EXISTS":
		n := 0.0
		for _, k := range a[1:] {
			if (cmd == "DEL" && r.del(k)) || (cmd == "EXISTS" && r.exists(k)) {
				n++
			}
		}
		return n, nil
	case "PEXPIREAT":
		n, err := strconv.ParseInt(a[2], 10, 64)
		if err != nil {
			return nil, errNotInt
		}
		if !r.exists(a[1]) {
			return 0.0, nil
		}
		r.expire[a[1]] = n
		return 1.0, nil
	case "INCRBY":
		return r.incr(a[1], a[2], 1)
	case "DECRBY":
		return r.incr(a[1], a[2], -1)
	case "HGET":
		if v, ok := r.hashes[a[1]][a[2]]; ok {
			return v, nil
		}
		return false, nil
	case "HSET":
		if len(a) < 4 || len(a)%2 != 0 {
			return nil, errors.New("ERR wrong number of arguments for 'hset' command")
		}
		if r.hashes[a[1]] == nil {
			r.hashes[a[1]] = map[string]string{}
		}
		added := 0.0
		for i := 2; i < len(a); i += 2 {
			if _, ok := r.hashes[a[1]][a[i]]; !ok {
				added++
			}
			r.hashes[a[1]][a[i]] = a[i+1]
		}
		return added, nil
	case "HINCRBY":
		if r.hashes[a[1]] == nil {
			r.hashes[a[1]] = map[string]string{}
		}
		cur, _ := strconv.ParseInt(r.hashes[a[1]][a[2]], 10, 64)
		by, err := strconv.ParseInt(a[3], 10, 64)
		if err != nil {
			return nil, errNotInt
		}
		r.hashes[a[1]][a[2]] = strconv.FormatInt(cur+by, 10)
		return float64(cur + by), nil
	case "RENAME":
		if !r.exists(a[1]) {
			return nil, errors.New("ERR no such key")
		}
		s, isStr := r.strs[a[1]]
		h, isHash := r.hashes[a[1]]
		exp, hasExp := r.expire[a[1]]
		r.del(a[1])
		r.del(a[2])
		if isStr {
			r.strs[a[2]] = s
		}
		if isHash {
			r.hashes[a[2]] = h
		}
		if hasExp {
			r.expire[a[2]] = exp
		}
		return statusOK(), nil
	case "TIME":
		t := NewTable()
		t.Append(strconv.FormatInt(r.nowMs/1000, 10))
		t.Append(strconv.FormatInt(r.usec, 10))
		return t, nil
	case "BITFIELD", "BITFIELD_RO":
		return r.bitfield(a, cmd == "BITFIELD_RO")
	case "JSON.SET":
		doc := map[string]any{}
		if a[2] != "$" || json.Unmarshal([]byte(a[3]), &doc) != nil {
			return nil, errSyntax
		}
		r.del(a[1])
		r.docs[a[1]] = doc
		return statusOK(), nil
	case "JSON.GET":
		v, ok := r.docs[a[1]][a[2]]
		if !ok {
			return false, nil
		}
		b, _ := json.Marshal(v)
		return string(b), nil
	case "JSON.NUMINCRBY":
		cur, ok := r.docs[a[1]][a[2]].(float64)
		by, err := strconv.ParseFloat(a[3], 64)
		if !ok || err != nil {
			return nil, errors.New("ERR path does not exist or is not a number")
		}
		r.docs[a[1]][a[2]] = cur + by
		b, _ := json.Marshal(cur + by)
		return string(b), nil
	}
	return nil, errors.New("ERR unknown command '" + a[0] + "'")
}

func TestRedisCallErrors(t *testing.T) {
	r := newFakeRedis()
	r.hashes["h"] = map[string]string{"f": "v"}
	// a failing redis.call aborts the script with the host's message
	_, err := runScript(t, `redis.call("SET", "a", "1") redis.call("GET", "h") return 1`, nil, nil, r)
	var se *ScriptError
	if !errors.As(err, &se) || se.Msg != errWrongType.Error() {
		t.Fatalf("want ScriptError %q, got %T %v", errWrongType, err, err)
	}
	if r.strs["a"] != "1" {
		t.Fatalf("effects before the error must stay")
	}
	// pcall catches it, the error value is the table {err=...}
	v, err := runScript(t, `local ok, e = pcall(redis.call, "GET", "h") return {ok, type(e), e.err}`, nil, nil, r)
	if err != nil || render(v) != `{false,"table","WRONGTYPE Operation against a key holding the wrong kind of value"}` {
		t.Fatalf("pcall(redis.call): %s %v", render(v), err)
	}
	// redis.pcall returns the error table; returning it makes it the script result
	v, err = runScript(t, `local r = redis.pcall("NOPE") if r.err then return {"caught", r.err} end return r`, nil, nil, r)
	if err != nil || render(v) != `{"caught","ERR unknown command 'NOPE'"}` {
		t.Fatalf("redis.pcall: %s %v", render(v), err)
	}
	v, err = runScript(t, `return redis.pcall("GET", "h")`, nil, nil, r)
	if err != nil || render(v) != `{err="WRONGTYPE Operation against a key holding the wrong kind of value"}` {
		t.Fatalf("redis.pcall result: %s %v", render(v), err)
	}
	// number arguments are converted with Redis' rules, replies come back as Lua values
	r.log = nil
	v, err = runScript(t, `return {redis.call("set", "n", 10 / 4), redis.call("incrby", "c", 2 ^ 40), redis.call("get", "n"), redis.call("get", "none"), redis.call("time")[2]}`, nil, nil, r)
	if err != nil || render(v) != `{{ok="OK"},1099511627776,"2.5",false,"123456"}` {
		t.Fatalf("conversions: %s %v", render(v), err)
	}
	if got := strings.Join(r.log, "|"); got != "set n 2.5|incrby c 1099511627776|get n|get none|time" {
		t.Fatalf("log: %s", got)
	}
	// a host that returns a non-Lua value is a harness bug, not a script error
	_, err = runScript(t, `return redis.call("X")`, nil, nil, hostFunc(func([]string) (Value, error) { return 1, nil }))
	var ue *UnsupportedError
	if !errors.As(err, &ue) {
		t.Fatalf("want UnsupportedError for a Go int reply, got %T %v", err, err)
	}
}

type hostFunc func([]string) (Value, error)

func (f hostFunc) Call(a []string) (Value, error) { return f(a) }

// ---------------------------------------------------------------------------------------------------------------
// The real scripts, read from the library sources at test time.

var scriptRe = regexp.MustCompile("(\\w+)\\s*=\\s*(?:rueidis\\.NewLuaScript\\w*\\()?`([^`]*)`")

var repoScripts = map[string][]string{
	"/repo/rueidislock/lock.go":                {"delkey", "extend", "acqms", "acqat", "fcqms", "fcqat"},
	"/repo/rueidisaside/aside.go":              {"delkey", "setkey", "acquireLock"},
	"/repo/rueidislimiter/limiter.go":          {"rateLimitScript"},
	"/repo/om/hash.go":                         {"hashSaveScript"},
	"/repo/om/json.go":                         {"jsonSaveScript"},
	"/repo/rueidisprob/bloomfilter.go":         {"bloomFilterAddMultiScript", "bloomFilterExistsMultiScript", "bloomFilterExistsMultiReadOnlyScript", "bloomFilterResetScript", "bloomFilterDeleteScript"},
	"/repo/rueidisprob/countingbloomfilter.go": {"countingBloomFilterAddMultiScript", "countingBloomFilterRemoveMultiScript", "countingBloomFilterDeleteScript"},
	"/repo/rueidisprob/slidingbloomfilter.go":  {"slidingBloomFilterInitializeScript", "slidingBloomFilterAddMultiScript", "slidingBloomFilterExistsMultiScript", "slidingBloomFilterExistsReadOnlyMultiScript", "slidingBloomFilterResetScript"},
}

// loadScripts extracts and compiles the named scripts of one source file.
func loadScripts(t *testing.T, file string) map[string]*Chunk {
	t.Helper()
	src, err := os.ReadFile(file)
	if err != nil {
		t.Fatalf("cannot read the library source: %v", err)
	}
	texts := map[string]string{}
	for _, m := range scriptRe.FindAllStringSubmatch(string(src), -1) {
		texts[m[1]] = m[2]
	}
	if len(texts) != len(repoScripts[file]) {
		t.Fatalf("%s: found %d scripts, expected %d: the extraction regexp or the script list is out of date", file, len(texts), len(repoScripts[file]))
	}
	out := map[string]*Chunk{}
	for _, name := range repoScripts[file] {
		text, ok := texts[name]
		if !ok || !strings.Contains(text, "redis.call") {
			t.Fatalf("%s: script %s not found", file, name)
		}
		c, err := Compile(text)
		if err != nil {
			t.Fatalf("%s: %s does not compile: %v", file, name, err)
		}
		out[name] = c
	}
	return out
}

func TestAllRepoScriptsCompile(t *testing.T) {
	n := 0
	for file := range repoScripts {
		n += len(loadScripts(t, file))
	}
	if n != 25 {
		t.Fatalf("compiled %d scripts, want 25", n)
	}
}

// run executes a chunk and compares the rendered result; it returns the commands the script issued.
func run(t *testing.T, c *Chunk, r *fakeRedis, keys, argv []string, want string) string {
	t.Helper()
	r.log = nil
	v, err := c.Run(keys, argv, r)
	if err != nil {
		t.Fatalf("Run(%v, %v): %T %v", keys, argv, err, err)
	}
	if render(v) != want {
		t.Fatalf("Run(%v, %v) = %s, want %s\ncommands: %s", keys, argv, render(v), want, strings.Join(r.log, " | "))
	}
	return strings.Join(r.log, " | ")
}

func eq[T comparable](t *testing.T, what string, got, want T) {
	t.Helper()
	if got != want {
		t.Fatalf("%s = %v, want %v", what, got, want)
	}
}

func TestLockScripts(t *testing.T) {
	s := loadScripts(t, "/repo/rueidislock/lock.go")
	r := newFakeRedis()
	k := []string{"lk"}
	log := run(t, s["acqms"], r, k, []string{"id1", "1000"}, `{ok="OK"}`)
	eq(t, "commands", log, "SET lk id1 NX PX 1000 | GET lk")
	eq(t, "expiry", r.expire["lk"], r.nowMs+1000)
	run(t, s["acqms"], r, k, []string{"id2", "1000"}, `false`) // NX fails: nil reply -> false
	eq(t, "owner", r.strs["lk"], "id1")
	run(t, s["acqat"], r, k, []string{"id2", "1700000009999"}, `false`)
	run(t, s["extend"], r, k, []string{"id2", "1700000005000"}, `0`)
	run(t, s["extend"], r, k, []string{"id1", "1700000005000"}, `1`)
	eq(t, "expiry", r.expire["lk"], 1700000005000)
	run(t, s["fcqms"], r, k, []string{"id3", "250"}, `{ok="OK"}`)
	eq(t, "owner", r.strs["lk"], "id3")
	eq(t, "expiry", r.expire["lk"], r.nowMs+250)
	run(t, s["fcqat"], r, k, []string{"id4", "1700000007777"}, `{ok="OK"}`)
	eq(t, "expiry", r.expire["lk"], 1700000007777)
	run(t, s["delkey"], r, k, []string{"id3"}, `0`)
	run(t, s["delkey"], r, k, []string{"id4"}, `1`)
	eq(t, "exists", r.exists("lk"), false)
	run(t, s["acqat"], r, k, []string{"id5", "1700000009999"}, `{ok="OK"}`)
	eq(t, "expiry", r.expire["lk"], 1700000009999)
	run(t, s["extend"], newFakeRedis(), k, []string{"id1", "1"}, `0`) // missing key: GET -> false ~= "id1"
}

func TestAsideScripts(t *testing.T) {
	s := loadScripts(t, "/repo/rueidisaside/aside.go")
	r := newFakeRedis()
	k := []string{"ck"}
	run(t, s["acquireLock"], r, k, []string{"lock-a", "500"}, `nil`) // acquired: returns nil
	eq(t, "value", r.strs["ck"], "lock-a")
	run(t, s["acquireLock"], r, k, []string{"lock-b", "500"}, `"lock-a"`) // held: returns the holder
	run(t, s["setkey"], r, k, []string{"lock-b", "val", "9000"}, `0`)
	log := run(t, s["setkey"], r, k, []string{"lock-a", "val", "9000"}, `{ok="OK"}`)
	eq(t, "commands", log, "GET ck | SET ck val PX 9000")
	eq(t, "expiry", r.expire["ck"], r.nowMs+9000)
	run(t, s["delkey"], r, k, []string{"lock-a"}, `0`)
	run(t, s["delkey"], r, k, []string{"val"}, `1`)
	eq(t, "exists", r.exists("ck"), false)
}

func TestRateLimitScript(t *testing.T) {
	s := loadScripts(t, "/repo/rueidislimiter/limiter.go")["rateLimitScript"]
	r := newFakeRedis()
	k := []string{"rl", "rl:exp"}
	// ARGV: increment, next_expires_at, current_time
	log := run(t, s, r, k, []string{"1", "5000", "1000"}, `{1,5000}`)
	eq(t, "commands", log, "get rl:exp | set rl 0 pxat 6000 | set rl:exp 5000 pxat 6000 | incrby rl 1")
	run(t, s, r, k, []string{"2", "9000", "2000"}, `{3,5000}`) // window still open: only increments
	eq(t, "expiry", r.expire["rl"], 6000)
	run(t, s, r, k, []string{"0", "9000", "5000"}, `{3,5000}`)   // expires_at == current_time is not expired
	run(t, s, r, k, []string{"1", "10000", "5001"}, `{1,10000}`) // expired: reset
	eq(t, "expiry", r.expire["rl:exp"], 11000)
	eq(t, "count", r.strs["rl"], "1")
}

func TestHashSaveScript(t *testing.T) {
	s := loadScripts(t, "/repo/om/hash.go")["hashSaveScript"]
	r := newFakeRedis()
	k := []string{"h:1"}
	// ARGV[1] == '': no version check, returns ARGV[2]
	log := run(t, s, r, k, []string{"", "x", "f1", "v1"}, `"x"`)
	eq(t, "commands", log, "HSET h:1  x f1 v1")
	log = run(t, s, r, k, []string{"", "x", "f1", "v2", "99999"}, `"x"`) // odd count: the last argument is the expiry
	eq(t, "commands", log, "HSET h:1  x f1 v2 | PEXPIREAT h:1 99999")
	eq(t, "expiry", r.expire["h:1"], 99999)
	// versioned: the stored version must match, then it is incremented
	k = []string{"h:2"}
	log = run(t, s, r, k, []string{"ver", "0", "f1", "v1"}, `"1"`)
	eq(t, "commands", log, "HGET h:2 ver | HSET h:2 ver 1 f1 v1")
	run(t, s, r, k, []string{"ver", "1", "f1", "v2", "88888"}, `"2"`)
	eq(t, "ver", r.hashes["h:2"]["ver"], "2")
	eq(t, "f1", r.hashes["h:2"]["f1"], "v2")
	eq(t, "expiry", r.expire["h:2"], 88888)
	log = run(t, s, r, k, []string{"ver", "1", "f1", "stale"}, `nil`) // version mismatch
	eq(t, "commands", log, "HGET h:2 ver")
	eq(t, "f1", r.hashes["h:2"]["f1"], "v2")
}

func TestJSONSaveScript(t *testing.T) {
	s := loadScripts(t, "/repo/om/json.go")["jsonSaveScript"]
	r := newFakeRedis()
	k := []string{"j:1"}
	log := run(t, s, r, k, []string{"", "x", `{"a":1}`}, `"x"`)
	eq(t, "commands", log, `JSON.SET j:1 $ {"a":1}`)
	log = run(t, s, r, k, []string{"", "x", `{"a":2}`, "77777"}, `"x"`)
	eq(t, "commands", log, `JSON.SET j:1 $ {"a":2} | PEXPIREAT j:1 77777`)
	k = []string{"j:2"}
	run(t, s, r, k, []string{"Ver", "0", `{"Ver":0,"a":1}`}, `"1"`) // new document
	log = run(t, s, r, k, []string{"Ver", "1", `{"Ver":1,"a":2}`, "66666"}, `"2"`)
	eq(t, "commands", log, `JSON.GET j:2 Ver | JSON.SET j:2 $ {"Ver":1,"a":2} | JSON.NUMINCRBY j:2 Ver 1 | PEXPIREAT j:2 66666`)
	run(t, s, r, k, []string{"Ver", "1", `{"Ver":1,"a":3}`}, `nil`) // stale version
	eq(t, "a", r.docs["j:2"]["a"], any(2.0))
}

func TestBloomFilterScripts(t *testing.T) {
	s := loadScripts(t, "/repo/rueidisprob/bloomfilter.go")
	r := newFakeRedis()
	k := []string{"bf", "bf:c"}
	// hashIterations = 2; elements (1,9) (1,9) (3,9): the second is a duplicate, so two new elements are counted
	run(t, s["bloomFilterAddMultiScript"], r, k, []string{"2", "1", "9", "1", "9", "3", "9"}, `2`)
	eq(t, "bitmap", r.strs["bf"], "\x50\x40")
	eq(t, "counter", r.strs["bf:c"], "2")
	run(t, s["bloomFilterAddMultiScript"], r, k, []string{"2", "3", "1"}, `2`) // all bits already set
	log := run(t, s["bloomFilterExistsMultiScript"], r, k[:1], []string{"2", "1", "9", "1", "2", "3", "9"}, `{true,false,true}`)
	eq(t, "first command", strings.Split(log, " | ")[0], "BITFIELD bf GET u1 1")
	log = run(t, s["bloomFilterExistsMultiReadOnlyScript"], r, k[:1], []string{"2", "1", "9", "1", "2", "3", "9"}, `{true,false,true}`)
	eq(t, "first command", strings.Split(log, " | ")[0], "BITFIELD_RO bf GET u1 1")
	run(t, s["bloomFilterExistsMultiScript"], r, k[:1], []string{"3"}, `{}`) // no elements
	log = run(t, s["bloomFilterResetScript"], r, k, nil, `1`)
	eq(t, "commands", log, "SET bf  | SET bf:c 0")
	run(t, s["bloomFilterExistsMultiScript"], r, k[:1], []string{"2", "1", "9"}, `{false}`)
	run(t, s["bloomFilterDeleteScript"], r, k, nil, `1`)
	eq(t, "exists", r.exists("bf") || r.exists("bf:c"), false)
}

func TestCountingBloomFilterScripts(t *testing.T) {
	s := loadScripts(t, "/repo/rueidisprob/countingbloomfilter.go")
	r := newFakeRedis()
	k := []string{"cbf", "cbf:c"}
	// ARGV: itemCount, indexes...
	run(t, s["countingBloomFilterAddMultiScript"], r, k, []string{"2", "5", "9", "5", "7"}, `2`)
	eq(t, "hash", render(hashTable(r.hashes["cbf"])), `{5="2",7="1",9="1"}`)

	// ARGV: indexes..., hashIterations. Elements (5,9) (5,7) (5,3): the third would drive counter 5 below zero at
	// its first index, so it is rolled back and not removed; 2 elements are removed.
	log := run(t, s["countingBloomFilterRemoveMultiScript"], r, k, []string{"5", "9", "5", "7", "5", "3", "2"}, `0`)
	eq(t, "hash", render(hashTable(r.hashes["cbf"])), `{5="0",7="0",9="0"}`)
	if !strings.HasSuffix(log, "HINCRBY cbf 5 -1 | HINCRBY cbf 9 -1 | HINCRBY cbf 5 -1 | HINCRBY cbf 7 -1 | DECRBY cbf:c 2") {
		t.Fatalf("commands: %s", log)
	}

	// rollback at the second index: (9,3) fails at index 3 (absent), which restores 9 so that (4,9) can be removed
	r = newFakeRedis()
	r.hashes["cbf"] = map[string]string{"9": "1", "4": "1"}
	r.strs["cbf:c"] = "1"
	log = run(t, s["countingBloomFilterRemoveMultiScript"], r, k, []string{"9", "3", "4", "9", "2"}, `0`)
	eq(t, "hash", render(hashTable(r.hashes["cbf"])), `{4="0",9="0"}`)
	if !strings.HasSuffix(log, "HGET cbf 9 | HINCRBY cbf 4 -1 | HINCRBY cbf 9 -1 | DECRBY cbf:c 1") {
		t.Fatalf("commands: %s", log)
	}
	// nothing removable: no HINCRBY at all and the item counter is decreased by 0
	r.hashes["cbf"] = map[string]string{"9": "1"}
	r.strs["cbf:c"] = "1"
	log = run(t, s["countingBloomFilterRemoveMultiScript"], r, k, []string{"9", "3", "2"}, `1`)
	eq(t, "hash", render(hashTable(r.hashes["cbf"])), `{9="1"}`)
	eq(t, "commands", log, "HGET cbf 9 | HGET cbf 3 | DECRBY cbf:c 0")

	run(t, s["countingBloomFilterDeleteScript"], r, k, nil, `1`)
	eq(t, "exists", r.exists("cbf") || r.exists("cbf:c"), false)
}

func hashTable(h map[string]string) *Table {
	t := NewTable()
	for k, v := range h {
		t.Set(k, v)
	}
	return t
}

func TestSlidingBloomFilterScripts(t *testing.T) {
	s := loadScripts(t, "/repo/rueidisprob/slidingbloomfilter.go")
	r := newFakeRedis()
	k := []string{"f", "f:n", "f:c", "f:nc", "f:lr"}
	log := run(t, s["slidingBloomFilterInitializeScript"], r, k, []string{"5000"}, `1`)
	eq(t, "commands", log, "EXISTS f f:n f:c f:nc f:lr | TIME | MSET f  f:c 0 f:n  f:nc 0 | SET f:lr 1700000000123 PX 5000 NX")
	eq(t, "rotation expiry", r.expire["f:lr"], r.nowMs+5000)
	log = run(t, s["slidingBloomFilterInitializeScript"], r, k, []string{"5000"}, `1`) // already initialized
	eq(t, "commands", log, "EXISTS f f:n f:c f:nc f:lr")

	// ARGV: hashIterations, windowHalf, indexes...; the rotation lock is held, so no rotation
	run(t, s["slidingBloomFilterAddMultiScript"], r, k, []string{"2", "5000", "1", "9"}, `1`)
	eq(t, "filter", r.strs["f"], "\x40\x40")
	eq(t, "next filter", r.strs["f:n"], "\x40\x40")
	eq(t, "next counter", r.strs["f:nc"], "1")
	run(t, s["slidingBloomFilterExistsMultiScript"], r, k, []string{"2", "5000", "1", "9", "1", "2"}, `{true,false}`)

	// the rotation lock expires: the next filter becomes the current one
	r.del("f:lr")
	r.strs["f"] = "\xff\xff" // would make everything exist if it were not replaced
	log = run(t, s["slidingBloomFilterAddMultiScript"], r, k, []string{"2", "5000", "3", "4"}, `2`)
	if !strings.HasPrefix(log, "TIME | SET f:lr 1700000000123 PX 5000 NX | RENAME f:n f | RENAME f:nc f:c | SET f:n  | SET f:nc 0 | BITFIELD f SET u1 3 1 | BITFIELD f:n SET u1 3 1") {
		t.Fatalf("commands: %s", log)
	}
	eq(t, "filter", r.strs["f"], "\x58\x40")
	eq(t, "next filter", r.strs["f:n"], "\x18")
	eq(t, "counter", r.strs["f:c"], "2")
	eq(t, "next counter", r.strs["f:nc"], "1")
	log = run(t, s["slidingBloomFilterExistsReadOnlyMultiScript"], r, k, []string{"2", "5000", "3", "4", "1", "2", "1", "9"}, `{true,false,true}`)
	if !strings.Contains(log, "BITFIELD_RO f GET u1 3") {
		t.Fatalf("commands: %s", log)
	}

	log = run(t, s["slidingBloomFilterResetScript"], r, k[:4], nil, `nil`) // the script has no return statement
	eq(t, "commands", log, "RENAME f:n f | RENAME f:nc f:c | SET f:n  | SET f:nc 0")
	eq(t, "filter", r.strs["f"], "\x18")

	// RENAME of a missing key fails and aborts the script
	_, err := s["slidingBloomFilterResetScript"].Run([]string{"a", "b", "c", "d"}, nil, newFakeRedis())
	var se *ScriptError
	if !errors.As(err, &se) || se.Msg != "ERR no such key" {
		t.Fatalf("want ScriptError ERR no such key, got %v", err)
	}
}

func TestConcurrentRuns(t *testing.T) {
	c, err := Compile(`local t = {} for i = 1, 100 do table.insert(t, ARGV[1] .. i) end return string.upper(table.concat(t, ","):sub(1, 5))`)
	if err != nil {
		t.Fatal(err)
	}
	done := make(chan string, 8)
	for g := 0; g < 8; g++ {
		go func() {
			v, err := c.Run(nil, []string{"ab"}, nil)
			done <- fmt.Sprintf("%v %v", v, err)
		}()
	}
	for g := 0; g < 8; g++ {
		if got := <-done; got != "AB1,A <nil>" {
			t.Errorf("got %s", got)
		}
	}
}
