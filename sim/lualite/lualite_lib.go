package lualite

// The built-in library: base functions, table, math, string and the redis API table.
//
// All library tables are created once and shared by every Run; this is safe because scripts cannot modify them
// (Table.lib marks them read-only) and builtins keep their state in the *interp they receive.

import (
	"crypto/sha1"
	"encoding/hex"
	"fmt"
	"math"
	"strconv"
	"strings"
)

type native = func(in *interp, args []Value) []Value

var (
	baseGlobals map[string]Value // copied into the global table of every Run
	stringLib   *Table
)

// unsupportedGlobals are names of standard Lua / Redis globals that lualite does not provide. Reading one of them
// is a harness gap rather than the "nonexistent global variable" script error.
var unsupportedGlobals = map[string]bool{"_G": true, "_VERSION": true, "setmetatable": true, "getmetatable": true,
	"rawget": true, "rawset": true, "rawequal": true, "loadstring": true, "load": true, "dofile": true,
	"loadfile": true, "require": true, "module": true, "package": true, "print": true, "collectgarbage": true,
	"gcinfo": true, "newproxy": true, "xpcall": true, "setfenv": true, "getfenv": true, "coroutine": true,
	"os": true, "io": true, "debug": true, "cjson": true, "cmsgpack": true, "bit": true, "struct": true}

func newFunc(name string, f native) *Function {
	return &Function{name: name, native: f, id: idCounter.Add(1)}
}

func newLib(name string, fns map[string]native, consts map[string]Value) *Table {
	t := NewTable()
	for k, f := range fns {
		t.Set(k, newFunc(name+"."+k, f))
	}
	for k, v := range consts {
		t.Set(k, v)
	}
	t.lib = name
	return t
}

func init() {
	stringLib = newLib("string", map[string]native{"len": strLen, "sub": strSub, "rep": strRep, "format": strFormat,
		"lower": strLower, "upper": strUpper, "byte": strByte, "char": strChar, "find": strFind,
		"reverse": strReverse}, nil)
	tableLib := newLib("table", map[string]native{"insert": tblInsert, "remove": tblRemove, "concat": tblConcat,
		"unpack": baseUnpack}, nil)
	mathLib := newLib("math", map[string]native{"floor": math1("floor", math.Floor), "ceil": math1("ceil", math.Ceil),
		"abs": math1("abs", math.Abs), "sqrt": math1("sqrt", math.Sqrt), "max": mathMax, "min": mathMin,
		"pow":  func(in *interp, a []Value) []Value { return one(math.Pow(in.argNumber(a, 0, "pow"), in.argNumber(a, 1, "pow"))) },
		"fmod": func(in *interp, a []Value) []Value { return one(math.Mod(in.argNumber(a, 0, "fmod"), in.argNumber(a, 1, "fmod"))) },
	}, map[string]Value{"huge": math.Inf(1), "pi": math.Pi})
	redisLib := newLib("redis", map[string]native{
		"call":         func(in *interp, a []Value) []Value { return redisCall(in, a, false) },
		"pcall":        func(in *interp, a []Value) []Value { return redisCall(in, a, true) },
		"error_reply":  func(in *interp, a []Value) []Value { return one(replyTable(in, a, "err", "error_reply")) },
		"status_reply": func(in *interp, a []Value) []Value { return one(replyTable(in, a, "ok", "status_reply")) },
		"log":          func(in *interp, a []Value) []Value { return nil },
		"setresp":      redisSetresp,
		"sha1hex":      redisSha1hex,
	}, map[string]Value{"LOG_DEBUG": 0.0, "LOG_VERBOSE": 1.0, "LOG_NOTICE": 2.0, "LOG_WARNING": 3.0})

	baseGlobals = map[string]Value{"string": stringLib, "table": tableLib, "math": mathLib, "redis": redisLib}
	for name, f := range map[string]native{"tonumber": baseTonumber, "tostring": baseTostring, "type": baseType,
		"unpack": baseUnpack, "select": baseSelect, "ipairs": baseIpairs, "pairs": basePairs, "next": baseNext,
		"error": baseError, "pcall": basePcall, "assert": baseAssert} {
		baseGlobals[name] = newFunc(name, f)
	}
}

func one(v Value) []Value { return []Value{v} }

// ---------------------------------------------------------------------------------------------------------------
// Argument checking (luaL_check*)

func (in *interp) argError(i int, fname, msg string) {
	in.throw(in.line, "bad argument #%d to '%s' (%s)", i+1, fname, msg)
}

func argTypeName(args []Value, i int) string {
	if i >= len(args) {
		return "no value"
	}
	return typeName(args[i])
}

func (in *interp) argAny(args []Value, i int, fname string) Value {
	if i >= len(args) {
		in.argError(i, fname, "value expected")
	}
	return args[i]
}

func (in *interp) argNumber(args []Value, i int, fname string) float64 {
	if i < len(args) {
		if n, ok := toNumber(args[i]); ok {
			return n
		}
	}
	in.argError(i, fname, "number expected, got "+argTypeName(args, i))
	return 0
}

// argInt converts like a C cast (truncation); values a script cannot reasonably mean are rejected as unsupported.
func (in *interp) argInt(args []Value, i int, fname string) int {
	f := in.argNumber(args, i, fname)
	if f != f || math.Abs(f) > 1<<53 {
		unsupported("integer argument %v to %s", f, fname)
	}
	return int(f)
}

func (in *interp) optInt(args []Value, i int, fname string, def int) int {
	if i >= len(args) || args[i] == nil {
		return def
	}
	return in.argInt(args, i, fname)
}

func (in *interp) argString(args []Value, i int, fname string) string {
	if i < len(args) {
		if s, ok := toStringCoerce(args[i]); ok {
			return s
		}
	}
	in.argError(i, fname, "string expected, got "+argTypeName(args, i))
	return ""
}

func (in *interp) argTable(args []Value, i int, fname string) *Table {
	if i < len(args) {
		if t, ok := args[i].(*Table); ok {
			return t
		}
	}
	in.argError(i, fname, "table expected, got "+argTypeName(args, i))
	return nil
}

// ---------------------------------------------------------------------------------------------------------------
// Base functions

func baseTonumber(in *interp, args []Value) []Value {
	v := in.argAny(args, 0, "tonumber")
	base := in.optInt(args, 1, "tonumber", 10)
	if base == 10 {
		if n, ok := toNumber(v); ok {
			return one(n)
		}
		return one(nil)
	}
	if base < 2 || base > 36 {
		in.argError(1, "tonumber", "base out of range")
	}
	s := strings.TrimFunc(in.argString(args, 0, "tonumber"), func(r rune) bool { return r < 0x80 && isSpace(byte(r)) })
	if strings.HasPrefix(s, "-") {
		unsupported("tonumber of negative %q with base %d", s, base)
	}
	s = strings.TrimPrefix(s, "+")
	if base == 16 && len(s) > 2 && s[0] == '0' && s[1]|0x20 == 'x' {
		s = s[2:]
	}
	u, err := strconv.ParseUint(s, base, 64)
	if err != nil || strings.Contains(s, "_") {
		return one(nil)
	}
	return one(float64(u))
}

func tostringValue(v Value) string {
	switch x := v.(type) {
	case nil:
		return "nil"
	case bool:
		return strconv.FormatBool(x)
	case float64:
		return fmtNumber(x)
	case string:
		return x
	}
	unsupported("tostring of a %s (the result would be address dependent)", typeName(v))
	return ""
}

func baseTostring(in *interp, args []Value) []Value {
	return one(tostringValue(in.argAny(args, 0, "tostring")))
}

func baseType(in *interp, args []Value) []Value { return one(typeName(in.argAny(args, 0, "type"))) }

func baseUnpack(in *interp, args []Value) []Value {
	t := in.argTable(args, 0, "unpack")
	i := in.optInt(args, 1, "unpack", 1)
	j := in.optInt(args, 2, "unpack", t.Len())
	if i > j {
		return nil
	}
	if j-i+1 >= 8000 { // LUAI_MAXCSTACK
		in.throw(in.line, "too many results to unpack")
	}
	out := make([]Value, 0, j-i+1)
	for ; i <= j; i++ {
		out = append(out, t.Get(float64(i)))
	}
	return out
}

func baseSelect(in *interp, args []Value) []Value {
	if len(args) > 0 && args[0] == "#" {
		return one(float64(len(args) - 1))
	}
	n := in.argInt(args, 0, "select")
	rest := args[1:]
	if n < 0 {
		n = len(rest) + n + 1
	}
	if n < 1 {
		in.argError(0, "select", "index out of range")
	}
	if n > len(rest) {
		return nil
	}
	return rest[n-1:]
}

var ipairsIter = newFunc("ipairs_iterator", func(in *interp, args []Value) []Value {
	t := in.argTable(args, 0, "ipairs_iterator")
	i := float64(in.argInt(args, 1, "ipairs_iterator") + 1)
	if v := t.Get(i); v != nil {
		return []Value{i, v}
	}
	return one(nil)
})

func baseIpairs(in *interp, args []Value) []Value {
	return []Value{ipairsIter, in.argTable(args, 0, "ipairs"), 0.0}
}

// basePairs iterates over a snapshot of Table.Keys (deterministic order); keys removed during the traversal are
// skipped, keys added during the traversal are not visited (Lua leaves that case undefined).
func basePairs(in *interp, args []Value) []Value {
	t := in.argTable(args, 0, "pairs")
	keys, pos := t.Keys(), 0
	iter := newFunc("pairs_iterator", func(in *interp, _ []Value) []Value {
		for pos < len(keys) {
			k := keys[pos]
			pos++
			if v := t.Get(k); v != nil {
				return []Value{k, v}
			}
		}
		return one(nil)
	})
	return []Value{iter, t, nil}
}

func baseNext(in *interp, args []Value) []Value {
	t := in.argTable(args, 0, "next")
	keys := t.Keys()
	start := 0
	if len(args) > 1 && args[1] != nil {
		start = -1
		for i, k := range keys {
			if k == args[1] {
				start = i + 1
				break
			}
		}
		if start < 0 {
			in.throw(in.line, "invalid key to 'next'")
		}
	}
	if start < len(keys) {
		return []Value{keys[start], t.Get(keys[start])}
	}
	return one(nil)
}

func baseError(in *interp, args []Value) []Value {
	var v Value
	if len(args) > 0 {
		v = args[0]
	}
	level := in.optInt(args, 1, "error", 1)
	if s, ok := v.(string); ok {
		switch level {
		case 0:
		case 1:
			v = fmt.Sprintf("%s:%d: %s", chunkName, in.line, s)
		default:
			unsupported("error() with level %d", level)
		}
	}
	panic(&luaError{val: v})
}

func basePcall(in *interp, args []Value) (rets []Value) {
	fn := in.argAny(args, 0, "pcall")
	depth, line := in.depth, in.line
	defer func() {
		if r := recover(); r != nil {
			e, ok := r.(*luaError)
			if !ok {
				panic(r) // step budget and unsupported constructs are not catchable by the script
			}
			in.depth, in.tailFn, in.tailArgs = depth, nil, nil
			rets = []Value{false, e.val}
		}
	}()
	return append([]Value{true}, in.callValue(fn, args[1:], line)...)
}

func baseAssert(in *interp, args []Value) []Value {
	if !truthy(in.argAny(args, 0, "assert")) {
		if len(args) > 1 {
			panic(&luaError{val: args[1]})
		}
		panic(&luaError{val: "assertion failed!"})
	}
	return args
}

// ---------------------------------------------------------------------------------------------------------------
// table

func tblInsert(in *interp, args []Value) []Value {
	t := in.argTable(args, 0, "insert")
	n := t.Len()
	switch len(args) {
	case 2:
		in.setIndex(t, float64(n+1), args[1], in.line)
	case 3:
		pos := in.argInt(args, 1, "insert")
		e := n + 1
		if pos > e {
			e = pos
		}
		for i := e; i > pos; i-- {
			in.step()
			t.Set(float64(i), t.Get(float64(i-1)))
		}
		in.setIndex(t, float64(pos), args[2], in.line)
	default:
		in.throw(in.line, "wrong number of arguments to 'insert'")
	}
	return nil
}

func tblRemove(in *interp, args []Value) []Value {
	t := in.argTable(args, 0, "remove")
	n := t.Len()
	pos := in.optInt(args, 1, "remove", n)
	if pos < 1 || pos > n {
		return nil
	}
	if t.lib != "" {
		in.throw(in.line, "Attempt to modify a readonly table")
	}
	v := t.Get(float64(pos))
	for i := pos; i < n; i++ {
		in.step()
		t.Set(float64(i), t.Get(float64(i+1)))
	}
	t.Set(float64(n), nil)
	return one(v)
}

func tblConcat(in *interp, args []Value) []Value {
	t := in.argTable(args, 0, "concat")
	sep := ""
	if len(args) > 1 && args[1] != nil {
		sep = in.argString(args, 1, "concat")
	}
	i := in.optInt(args, 2, "concat", 1)
	j := in.optInt(args, 3, "concat", t.Len())
	var b strings.Builder
	for k := i; k <= j; k++ {
		in.step()
		s, ok := toStringCoerce(t.Get(float64(k)))
		if !ok {
			in.throw(in.line, "invalid value (at index %d) in table for 'concat'", k)
		}
		b.WriteString(s)
		if k < j {
			b.WriteString(sep)
		}
	}
	return one(b.String())
}

// ---------------------------------------------------------------------------------------------------------------
// math

func math1(name string, f func(float64) float64) native {
	return func(in *interp, args []Value) []Value { return one(f(in.argNumber(args, 0, name))) }
}

func mathMax(in *interp, args []Value) []Value {
	m := in.argNumber(args, 0, "max")
	for i := 1; i < len(args); i++ {
		if v := in.argNumber(args, i, "max"); v > m {
			m = v
		}
	}
	return one(m)
}

func mathMin(in *interp, args []Value) []Value {
	m := in.argNumber(args, 0, "min")
	for i := 1; i < len(args); i++ {
		if v := in.argNumber(args, i, "min"); v < m {
			m = v
		}
	}
	return one(m)
}

// ---------------------------------------------------------------------------------------------------------------
// string

// posRelat converts a possibly negative string position to an absolute one (lstrlib.c posrelat).
func posRelat(pos, length int) int {
	if pos < 0 {
		pos += length + 1
	}
	if pos < 0 {
		return 0
	}
	return pos
}

func strLen(in *interp, args []Value) []Value { return one(float64(len(in.argString(args, 0, "len")))) }

func strSub(in *interp, args []Value) []Value {
	s := in.argString(args, 0, "sub")
	start := posRelat(in.argInt(args, 1, "sub"), len(s))
	end := posRelat(in.optInt(args, 2, "sub", -1), len(s))
	if start < 1 {
		start = 1
	}
	if end > len(s) {
		end = len(s)
	}
	if start > end {
		return one("")
	}
	return one(s[start-1 : end])
}

func strRep(in *interp, args []Value) []Value {
	s := in.argString(args, 0, "rep")
	n := in.argInt(args, 1, "rep")
	if n <= 0 || s == "" {
		return one("")
	}
	if n > (64<<20)/len(s) {
		unsupported("string.rep result larger than 64 MiB")
	}
	return one(strings.Repeat(s, n))
}

func mapASCII(s string, from, to byte, delta int) string {
	b := []byte(s)
	for i, c := range b {
		if c >= from && c <= to {
			b[i] = byte(int(c) + delta)
		}
	}
	return string(b)
}

func strLower(in *interp, args []Value) []Value {
	return one(mapASCII(in.argString(args, 0, "lower"), 'A', 'Z', 32))
}

func strUpper(in *interp, args []Value) []Value {
	return one(mapASCII(in.argString(args, 0, "upper"), 'a', 'z', -32))
}

func strReverse(in *interp, args []Value) []Value {
	b := []byte(in.argString(args, 0, "reverse"))
	for i, j := 0, len(b)-1; i < j; i, j = i+1, j-1 {
		b[i], b[j] = b[j], b[i]
	}
	return one(string(b))
}

func strByte(in *interp, args []Value) []Value {
	s := in.argString(args, 0, "byte")
	i := posRelat(in.optInt(args, 1, "byte", 1), len(s))
	j := posRelat(in.optInt(args, 2, "byte", i), len(s))
	if i < 1 {
		i = 1
	}
	if j > len(s) {
		j = len(s)
	}
	var out []Value
	for ; i <= j; i++ {
		out = append(out, float64(s[i-1]))
	}
	return out
}

func strChar(in *interp, args []Value) []Value {
	b := make([]byte, len(args))
	for i := range args {
		c := in.argInt(args, i, "char")
		if c < 0 || c > 255 {
			in.argError(i, "char", "invalid value")
		}
		b[i] = byte(c)
	}
	return one(string(b))
}

// strFind supports plain searches only: either the plain flag is set or the pattern has no magic characters.
func strFind(in *interp, args []Value) []Value {
	s := in.argString(args, 0, "find")
	pat := in.argString(args, 1, "find")
	init := posRelat(in.optInt(args, 2, "find", 1), len(s)) - 1
	if init < 0 {
		init = 0
	} else if init > len(s) {
		init = len(s)
	}
	if !(len(args) > 3 && truthy(args[3])) && strings.ContainsAny(pat, "^$*+?.([%-") {
		unsupported("string.find with the Lua pattern %q (only plain searches are implemented)", pat)
	}
	idx := strings.Index(s[init:], pat)
	if idx < 0 {
		return one(nil)
	}
	return []Value{float64(init + idx + 1), float64(init + idx + len(pat))}
}

// strFormat implements %d %i %u %c %x %X %o %e %E %f %g %G %s %% with flags, width and precision.
func strFormat(in *interp, args []Value) []Value {
	f := in.argString(args, 0, "format")
	var b strings.Builder
	argi := 0
	for i := 0; i < len(f); i++ {
		if f[i] != '%' {
			b.WriteByte(f[i])
			continue
		}
		if i++; i >= len(f) {
			in.throw(in.line, "invalid option '%%' to 'format'")
		}
		if f[i] == '%' {
			b.WriteByte('%')
			continue
		}
		start := i
		for i < len(f) && strings.IndexByte("-+ #0", f[i]) >= 0 {
			i++
		}
		if i-start > 5 {
			in.throw(in.line, "invalid format (repeated flags)")
		}
		flags := f[start:i]
		width, prec, hasPrec := 0, 0, false
		for n := 0; i < len(f) && isDigit(f[i]) && n < 2; n++ {
			width = width*10 + int(f[i]-'0')
			i++
		}
		if i < len(f) && f[i] == '.' {
			hasPrec = true
			i++
			for n := 0; i < len(f) && isDigit(f[i]) && n < 2; n++ {
				prec = prec*10 + int(f[i]-'0')
				i++
			}
		}
		if i >= len(f) || isDigit(f[i]) {
			in.throw(in.line, "invalid format (width or precision too long)")
		}
		spec := "%" + flags
		if width > 0 {
			spec += strconv.Itoa(width)
		}
		argi++
		switch conv := f[i]; conv {
		case 'd', 'i':
			if hasPrec {
				spec += "." + strconv.Itoa(prec)
			}
			fmt.Fprintf(&b, spec+"d", int64(in.argInt(args, argi, "format")))
		case 'u', 'x', 'X', 'o':
			if hasPrec {
				spec += "." + strconv.Itoa(prec)
			}
			if conv == 'u' {
				conv = 'd'
			}
			fmt.Fprintf(&b, spec+string(conv), uint64(int64(in.argInt(args, argi, "format"))))
		case 'c':
			b.WriteByte(byte(in.argInt(args, argi, "format")))
		case 'e', 'E', 'f', 'g', 'G':
			n := in.argNumber(args, argi, "format")
			if math.IsInf(n, 0) || n != n {
				unsupported("string.format of %v", n)
			}
			if !hasPrec {
				prec = 6
			}
			fmt.Fprintf(&b, spec+"."+strconv.Itoa(prec)+string(conv), n)
		case 's':
			s := in.argString(args, argi, "format")
			if hasPrec && prec < len(s) {
				s = s[:prec]
			}
			pad := ""
			if width > len(s) {
				pad = strings.Repeat(" ", width-len(s))
			}
			if strings.Contains(flags, "-") {
				b.WriteString(s + pad)
			} else {
				b.WriteString(pad + s)
			}
		case 'q':
			unsupported("string.format option %%q")
		default:
			in.throw(in.line, "invalid option '%%%c' to 'format'", conv)
		}
	}
	return one(b.String())
}

// ---------------------------------------------------------------------------------------------------------------
// redis

func errTable(msg string) *Table {
	t := NewTable()
	t.Set("err", msg)
	return t
}

func replyTable(in *interp, args []Value, field, fname string) Value {
	if len(args) != 1 {
		return errTable("wrong number or type of arguments")
	}
	s, ok := args[0].(string)
	if !ok {
		return errTable("wrong number or type of arguments")
	}
	t := NewTable()
	t.Set(field, s)
	return t
}

// checkHostValue makes sure that the host only hands Lua values to the script.
func checkHostValue(v Value, seen map[*Table]bool) {
	typeName(v) // unsupported for anything that is not a Lua value
	if t, ok := v.(*Table); ok && !seen[t] {
		seen[t] = true
		for _, k := range t.Keys() {
			typeName(k)
			checkHostValue(t.Get(k), seen)
		}
	}
}

// redisCall implements redis.call (raise=true semantics when protected is false) and redis.pcall.
func redisCall(in *interp, args []Value, protected bool) []Value {
	var reply Value
	strs := make([]string, len(args))
	for i, a := range args {
		s, ok := ToRedisArg(a)
		if !ok {
			reply = errTable("Lua redis lib command arguments must be strings or integers")
		}
		strs[i] = s
	}
	if len(args) == 0 {
		reply = errTable("Please specify at least one argument for this redis lib call")
	}
	if reply == nil {
		if in.host == nil {
			unsupported("redis.call without a Host")
		}
		v, err := in.host.Call(strs)
		if err != nil {
			reply = errTable(err.Error())
		} else {
			checkHostValue(v, map[*Table]bool{})
			reply = v
		}
	}
	if t, ok := reply.(*Table); ok && !protected {
		if _, isErr := t.Get("err").(string); isErr {
			panic(&luaError{val: t}) // Redis 7 raises the error table itself
		}
	}
	return one(reply)
}

func redisSetresp(in *interp, args []Value) []Value {
	switch in.argNumber(args, 0, "setresp") {
	case 2:
	case 3:
		unsupported("redis.setresp(3): the host converts replies with RESP2 rules")
	default:
		in.throw(in.line, "RESP version must be 2 or 3.")
	}
	return nil
}

func redisSha1hex(in *interp, args []Value) []Value {
	if len(args) != 1 {
		in.throw(in.line, "wrong number of arguments")
	}
	sum := sha1.Sum([]byte(in.argString(args, 0, "sha1hex")))
	return one(hex.EncodeToString(sum[:]))
}
