// Package lualite is a small, strict interpreter for the subset of Lua 5.1 that Redis scripts embedded in client
// libraries use. It belongs to the trusted base of a verification tool, so it prefers strictness over coverage:
// whatever is not implemented yields an *UnsupportedError ("harness gap") instead of silently misbehaving, while
// errors a real Redis would report to the caller yield a *ScriptError ("script failed").
//
// Deliberate choices (all mirror Redis' embedded Lua 5.1 unless stated otherwise):
//   - numbers are float64, tostring/concat use "%.14g"; redis.call arguments use ToRedisArg.
//   - runtime error messages are prefixed "user_script:LINE: " like Lua does; errors raised by a failed redis.call
//     carry the host's message unchanged (the raised value is the table {err=msg}, as in Redis 7).
//   - reading a global that was never assigned raises "Script attempted to access nonexistent global variable"
//     like Redis; assigning globals is allowed (plain Lua) so that `function name() end` works.
//   - library tables (string, table, math, redis) are read-only; a missing member is an UnsupportedError.
//   - there are no metatables, coroutines, patterns (string.find is plain only), goto, cjson/cmsgpack/bit/struct.
//   - pairs() iterates deterministically in Table.Keys order.
//   - `#t` is the index of the last non-nil slot of the array part (a valid border; equals Lua for hole-free tables).
//
// Layout of this file: data model, conversions, lexer, AST, parser, evaluator, built-in library.
package lualite

import (
	"crypto/sha1"
	"encoding/hex"
	"fmt"
	"math"
	"sort"
	"strconv"
	"strings"
	"sync/atomic"
)

// Value is one of: nil, bool, float64, string, *Table, *Function.
type Value = any

// MaxSteps bounds the number of executed statements+expressions per Run; exceeding it returns a ScriptError
// "script exceeded the step budget" (not catchable by pcall).
var MaxSteps = 10_000_000

const (
	chunkName    = "user_script"
	maxCallDepth = 20000 // LUAI_MAXCALLS: deeper Lua call nesting is "stack overflow"
	maxSyntax    = 200   // LUAI_MAXCCALLS: deeper syntactic nesting is "chunk has too many syntax levels"
)

// ScriptError is returned when the script raised an error (error(), a failed redis.call, a runtime error) or, from
// Compile, when it has a syntax error.
//
// Table reports that the error value was a table with a string err field (what a failed redis.call raises, or
// error{err=...}): Redis replies with that message verbatim, whereas other error values get an "ERR " prefix.
// Line is the line of the call that was executing when the error was raised (0 when unknown); Budget marks the
// step-budget abort, which is a harness limit rather than something Redis would report.
type ScriptError struct {
	Msg    string
	Table  bool
	Line   int
	Budget bool
}

func (e *ScriptError) Error() string { return e.Msg }

// UnsupportedError is returned when the script uses something outside the supported subset: a harness gap, not a
// script failure.
type UnsupportedError struct{ What string }

func (e *UnsupportedError) Error() string { return "lualite: unsupported: " + e.What }

func unsupported(format string, a ...any) { panic(&UnsupportedError{What: fmt.Sprintf(format, a...)}) }

// Host is how the script reaches Redis; see the package documentation of the API contract.
type Host interface {
	// Call executes one Redis command whose arguments were converted with ToRedisArg. It returns the reply as a Lua
	// value, or (nil, err) when the command failed.
	Call(args []string) (Value, error)
}

// ---------------------------------------------------------------------------------------------------------------
// Tables and functions

var idCounter atomic.Uint64 // creation order of tables/functions, only used to order them as table keys

// Table is a Lua table: slots 1..n live in arr (holes are possible, the last slot is never nil), the rest in hash.
// Invariant: every positive integer key in hash is > len(arr)+1.
type Table struct {
	arr  []Value
	hash map[Value]Value
	id   uint64
	lib  string // non-empty for built-in library tables: read-only for scripts, unknown members are unsupported
}

func NewTable() *Table { return &Table{id: idCounter.Add(1)} }

func arrayIndex(k Value) (int, bool) {
	if f, ok := k.(float64); ok && f >= 1 && f <= math.MaxInt32 && f == math.Floor(f) {
		return int(f), true
	}
	return 0, false
}

func (t *Table) Get(k Value) Value {
	if i, ok := arrayIndex(k); ok && i <= len(t.arr) {
		return t.arr[i-1]
	}
	if k == nil || t.hash == nil {
		return nil
	}
	return t.hash[k]
}

// Set stores v under k; a nil v deletes the key. A nil or NaN key is a programming error of the caller (the
// interpreter checks keys before it gets here) and panics.
func (t *Table) Set(k, v Value) {
	if k == nil {
		panic("lualite: table index is nil")
	}
	if f, ok := k.(float64); ok && f != f {
		panic("lualite: table index is NaN")
	}
	if i, ok := arrayIndex(k); ok {
		n := len(t.arr)
		if i <= n {
			t.arr[i-1] = v
			if v == nil && i == n {
				t.trim()
			}
			return
		}
		if i == n+1 {
			if v != nil {
				t.arr = append(t.arr, v)
				t.migrate()
			}
			return
		}
	}
	if v == nil {
		delete(t.hash, k)
		return
	}
	if t.hash == nil {
		t.hash = map[Value]Value{}
	}
	t.hash[k] = v
}

func (t *Table) trim() {
	n := len(t.arr)
	for n > 0 && t.arr[n-1] == nil {
		n--
	}
	t.arr = t.arr[:n]
}

// migrate moves keys len+1, len+2, ... from the hash part to the array part (restores the invariant after growth).
func (t *Table) migrate() {
	for len(t.hash) > 0 {
		k := float64(len(t.arr) + 1)
		v, ok := t.hash[k]
		if !ok {
			return
		}
		delete(t.hash, k)
		t.arr = append(t.arr, v)
	}
}

// setArray installs the positional items of a table constructor as slots 1..len(vals), overriding keyed items.
func (t *Table) setArray(vals []Value) {
	for i := range vals {
		delete(t.hash, float64(i+1))
	}
	t.arr = append([]Value(nil), vals...)
	t.trim()
	t.migrate()
}

// Len is the border of the array part (like #t).
func (t *Table) Len() int { return len(t.arr) }

// Append does t[#t+1] = v.
func (t *Table) Append(v Value) { t.Set(float64(len(t.arr)+1), v) }

// Keys returns the keys in deterministic order: array slots ascending, then the other keys sorted (numbers before
// strings, each ascending, then booleans, tables and functions).
func (t *Table) Keys() []Value {
	keys := make([]Value, 0, len(t.arr)+len(t.hash))
	for i, v := range t.arr {
		if v != nil {
			keys = append(keys, float64(i+1))
		}
	}
	rest := make([]Value, 0, len(t.hash))
	for k := range t.hash {
		rest = append(rest, k)
	}
	sort.Slice(rest, func(i, j int) bool { return keyLess(rest[i], rest[j]) })
	return append(keys, rest...)
}

func keyRank(k Value) int {
	switch k.(type) {
	case float64:
		return 0
	case string:
		return 1
	case bool:
		return 2
	case *Table:
		return 3
	}
	return 4
}

func keyLess(a, b Value) bool {
	if ra, rb := keyRank(a), keyRank(b); ra != rb {
		return ra < rb
	}
	switch x := a.(type) {
	case float64:
		return x < b.(float64)
	case string:
		return x < b.(string)
	case bool:
		return !x && b.(bool)
	case *Table:
		return x.id < b.(*Table).id
	case *Function:
		return x.id < b.(*Function).id
	}
	return false
}

// Function is a Lua closure or a Go builtin.
type Function struct {
	name   string
	native func(in *interp, args []Value) []Value
	proto  *funcProto
	env    *scope
	id     uint64
}

func typeName(v Value) string {
	switch v.(type) {
	case nil:
		return "nil"
	case bool:
		return "boolean"
	case float64:
		return "number"
	case string:
		return "string"
	case *Table:
		return "table"
	case *Function:
		return "function"
	}
	unsupported("Go value of type %T is not a Lua value (host bug?)", v)
	return ""
}

func truthy(v Value) bool { return v != nil && v != false }

// ---------------------------------------------------------------------------------------------------------------
// Number <-> string conversions

func isSpace(c byte) bool { return c == ' ' || (c >= '\t' && c <= '\r') }
func isDigit(c byte) bool { return c >= '0' && c <= '9' }
func isAlpha(c byte) bool { return c == '_' || (c|0x20 >= 'a' && c|0x20 <= 'z') }

// str2number converts like lua_str2number: optional surrounding whitespace, decimal floats and hex integers.
func str2number(s string) (float64, bool) {
	for len(s) > 0 && isSpace(s[0]) {
		s = s[1:]
	}
	for len(s) > 0 && isSpace(s[len(s)-1]) {
		s = s[:len(s)-1]
	}
	body, neg := s, false
	if len(body) > 0 && (body[0] == '+' || body[0] == '-') {
		neg, body = body[0] == '-', body[1:]
	}
	if len(body) > 2 && body[0] == '0' && body[1]|0x20 == 'x' {
		u, err := strconv.ParseUint(body[2:], 16, 64)
		if err != nil {
			return 0, false
		}
		if neg {
			return -float64(u), true
		}
		return float64(u), true
	}
	i, digits := 0, 0
	for ; i < len(body) && isDigit(body[i]); i++ {
		digits++
	}
	if i < len(body) && body[i] == '.' {
		for i++; i < len(body) && isDigit(body[i]); i++ {
			digits++
		}
	}
	if digits == 0 {
		if l := strings.ToLower(body); l == "inf" || l == "infinity" || strings.HasPrefix(l, "nan") {
			unsupported("conversion of %q to a number (C strtod accepts it, lualite does not)", s)
		}
		return 0, false
	}
	if i < len(body) && body[i]|0x20 == 'e' {
		i++
		if i < len(body) && (body[i] == '+' || body[i] == '-') {
			i++
		}
		j := i
		for ; i < len(body) && isDigit(body[i]); i++ {
		}
		if i == j {
			return 0, false
		}
	}
	if i != len(body) {
		return 0, false
	}
	f, err := strconv.ParseFloat(s, 64)
	if err != nil && !math.IsInf(f, 0) { // out of range yields ±Inf like strtod
		return 0, false
	}
	return f, true
}

// toNumber is Lua's number coercion for arithmetic: numbers and numeric strings.
func toNumber(v Value) (float64, bool) {
	switch x := v.(type) {
	case float64:
		return x, true
	case string:
		return str2number(x)
	}
	return 0, false
}

func fmtSpecial(f float64) (string, bool) {
	switch {
	case math.IsInf(f, 1):
		return "inf", true
	case math.IsInf(f, -1):
		return "-inf", true
	case f != f:
		if math.Signbit(f) {
			return "-nan", true
		}
		return "nan", true
	}
	return "", false
}

// fmtNumber is Lua 5.1's number to string conversion ("%.14g").
func fmtNumber(f float64) string {
	if s, ok := fmtSpecial(f); ok {
		return s
	}
	return strconv.FormatFloat(f, 'g', 14, 64)
}

// ToRedisArg converts a Lua string or number to the argument string Redis would see (numbers: integer-valued ->
// "%d" form, else %.17g).
func ToRedisArg(v Value) (string, bool) {
	switch x := v.(type) {
	case string:
		return x, true
	case float64:
		if s, ok := fmtSpecial(x); ok {
			return s, true
		}
		if x == math.Trunc(x) && x >= -9223372036854775808.0 && x < 9223372036854775808.0 {
			return strconv.FormatInt(int64(x), 10), true
		}
		return strconv.FormatFloat(x, 'g', 17, 64), true
	}
	return "", false
}

// toStringCoerce is the coercion used by `..` and by library functions expecting a string.
func toStringCoerce(v Value) (string, bool) {
	switch x := v.(type) {
	case string:
		return x, true
	case float64:
		return fmtNumber(x), true
	}
	return "", false
}

// ---------------------------------------------------------------------------------------------------------------
// Lexer

type tokKind int

const (
	tEOF tokKind = iota
	tName
	tNumber
	tString
	tKeyword
	tOp
)

type token struct {
	kind tokKind
	s    string // name, keyword, operator, or string literal contents
	n    float64
	line int
}

func (t token) is(kind tokKind, s string) bool { return t.kind == kind && t.s == s }

func (t token) text() string {
	switch t.kind {
	case tEOF:
		return "<eof>"
	case tNumber:
		return fmtNumber(t.n)
	}
	return t.s
}

var keywords = map[string]bool{"and": true, "break": true, "do": true, "else": true, "elseif": true, "end": true,
	"false": true, "for": true, "function": true, "if": true, "in": true, "local": true, "nil": true, "not": true,
	"or": true, "repeat": true, "return": true, "then": true, "true": true, "until": true, "while": true}

func syntaxError(line int, msg, near string) {
	m := fmt.Sprintf("Error compiling script (new function): %s:%d: %s", chunkName, line, msg)
	if near != "" {
		m += " near '" + near + "'"
	}
	panic(&ScriptError{Msg: m})
}

type lexer struct {
	src  string
	pos  int
	line int
}

// longBracket checks for `[`, `=`*, `[` at pos and returns the level, or -1.
func (lx *lexer) longBracket() int {
	p := lx.pos + 1
	for p < len(lx.src) && lx.src[p] == '=' {
		p++
	}
	if p < len(lx.src) && lx.src[p] == '[' {
		return p - lx.pos - 1
	}
	return -1
}

func (lx *lexer) readLong(level int, what string) string {
	start := lx.line
	lx.pos += level + 2
	if lx.pos < len(lx.src) && lx.src[lx.pos] == '\r' {
		lx.pos++
		if lx.pos < len(lx.src) && lx.src[lx.pos] == '\n' {
			lx.pos++
		}
		lx.line++
	} else if lx.pos < len(lx.src) && lx.src[lx.pos] == '\n' {
		lx.pos++
		lx.line++
	}
	closing := "]" + strings.Repeat("=", level) + "]"
	end := strings.Index(lx.src[lx.pos:], closing)
	if end < 0 {
		syntaxError(start, "unfinished long "+what, "<eof>")
	}
	body := lx.src[lx.pos : lx.pos+end]
	lx.line += strings.Count(body, "\n")
	lx.pos += end + len(closing)
	return body
}

func (lx *lexer) readString(quote byte) string {
	var b strings.Builder
	lx.pos++
	for {
		if lx.pos >= len(lx.src) {
			syntaxError(lx.line, "unfinished string", "<eof>")
		}
		c := lx.src[lx.pos]
		switch {
		case c == quote:
			lx.pos++
			return b.String()
		case c == '\n' || c == '\r':
			syntaxError(lx.line, "unfinished string", b.String())
		case c != '\\':
			b.WriteByte(c)
			lx.pos++
		default:
			lx.pos++
			if lx.pos >= len(lx.src) {
				syntaxError(lx.line, "unfinished string", "<eof>")
			}
			e := lx.src[lx.pos]
			lx.pos++
			switch e {
			case 'n':
				b.WriteByte('\n')
			case 'r':
				b.WriteByte('\r')
			case 't':
				b.WriteByte('\t')
			case 'a':
				b.WriteByte('\a')
			case 'b':
				b.WriteByte('\b')
			case 'f':
				b.WriteByte('\f')
			case 'v':
				b.WriteByte('\v')
			case '\n':
				b.WriteByte('\n')
				lx.line++
			default:
				if !isDigit(e) {
					b.WriteByte(e) // Lua 5.1: any other escaped character stands for itself (\\ \" \' ...)
					break
				}
				v := int(e - '0')
				for k := 0; k < 2 && lx.pos < len(lx.src) && isDigit(lx.src[lx.pos]); k++ {
					v = v*10 + int(lx.src[lx.pos]-'0')
					lx.pos++
				}
				if v > 255 {
					syntaxError(lx.line, "escape sequence too large", "")
				}
				b.WriteByte(byte(v))
			}
		}
	}
}

func (lx *lexer) readNumber() token {
	start := lx.pos
	for lx.pos < len(lx.src) && (isDigit(lx.src[lx.pos]) || lx.src[lx.pos] == '.') {
		lx.pos++
	}
	if lx.pos < len(lx.src) && lx.src[lx.pos]|0x20 == 'e' {
		lx.pos++
		if lx.pos < len(lx.src) && (lx.src[lx.pos] == '+' || lx.src[lx.pos] == '-') {
			lx.pos++
		}
	}
	for lx.pos < len(lx.src) && (isAlpha(lx.src[lx.pos]) || isDigit(lx.src[lx.pos])) {
		lx.pos++
	}
	text := lx.src[start:lx.pos]
	n, ok := str2number(text)
	if !ok || isSpace(text[len(text)-1]) {
		syntaxError(lx.line, "malformed number", text)
	}
	return token{kind: tNumber, n: n, line: lx.line}
}

func tokenize(src string) []token {
	lx := &lexer{src: src, line: 1}
	if strings.HasPrefix(src, "#") { // Lua skips a leading shebang line
		if i := strings.IndexByte(src, '\n'); i >= 0 {
			lx.pos = i
		} else {
			lx.pos = len(src)
		}
	}
	var toks []token
	for {
		if lx.pos >= len(src) {
			return append(toks, token{kind: tEOF, line: lx.line})
		}
		c := src[lx.pos]
		switch {
		case c == '\n':
			lx.line++
			lx.pos++
		case isSpace(c):
			lx.pos++
		case c == '-' && strings.HasPrefix(src[lx.pos:], "--"):
			lx.pos += 2
			if lx.pos < len(src) && src[lx.pos] == '[' {
				if level := lx.longBracket(); level >= 0 {
					lx.readLong(level, "comment")
					continue
				}
			}
			for lx.pos < len(src) && src[lx.pos] != '\n' {
				lx.pos++
			}
		case c == '[' && lx.longBracket() >= 0:
			line := lx.line
			toks = append(toks, token{kind: tString, s: lx.readLong(lx.longBracket(), "string"), line: line})
		case c == '"' || c == '\'':
			line := lx.line
			toks = append(toks, token{kind: tString, s: lx.readString(c), line: line})
		case isDigit(c) || (c == '.' && lx.pos+1 < len(src) && isDigit(src[lx.pos+1])):
			toks = append(toks, lx.readNumber())
		case isAlpha(c):
			start := lx.pos
			for lx.pos < len(src) && (isAlpha(src[lx.pos]) || isDigit(src[lx.pos])) {
				lx.pos++
			}
			word := src[start:lx.pos]
			kind := tName
			if keywords[word] {
				kind = tKeyword
			}
			toks = append(toks, token{kind: kind, s: word, line: lx.line})
		default:
			op := ""
			for _, cand := range []string{"...", "..", "==", "~=", "<=", ">="} {
				if strings.HasPrefix(src[lx.pos:], cand) {
					op = cand
					break
				}
			}
			if op == "" {
				if strings.IndexByte("+-*/%^#<>=(){}[];:,.", c) < 0 {
					syntaxError(lx.line, "unexpected symbol", string(c))
				}
				op = string(c)
			}
			lx.pos += len(op)
			toks = append(toks, token{kind: tOp, s: op, line: lx.line})
		}
	}
}

// ---------------------------------------------------------------------------------------------------------------
// AST

type expr any
type stmt any

type (
	constExpr  struct{ v Value } // nil, true, false, number or string literal
	varargExpr struct{}
	nameExpr   struct {
		name string
		line int
	}
	indexExpr struct {
		obj, key expr
		line     int
	}
	callExpr struct {
		fn     expr
		method string // non-empty for obj:method(args)
		args   []expr
		line   int
	}
	funcExpr struct{ proto *funcProto }
	binExpr  struct {
		op   string
		l, r expr
		line int
	}
	unExpr struct {
		op   string
		e    expr
		line int
	}
	parenExpr struct{ e expr } // truncates multiple values to one
	tableItem struct{ key, val expr }
	tableExpr struct {
		items []tableItem // key == nil: positional item
		line  int
	}
)

type funcProto struct {
	name   string
	params []string
	vararg bool
	body   []stmt
}

type (
	localStmt struct {
		names []string
		exprs []expr
	}
	assignStmt struct {
		targets []expr // nameExpr or indexExpr
		exprs   []expr
		line    int
	}
	callStmt  struct{ call *callExpr }
	doStmt    struct{ body []stmt }
	whileStmt struct {
		cond expr
		body []stmt
	}
	repeatStmt struct {
		body []stmt
		cond expr
	}
	ifStmt struct {
		conds  []expr
		blocks [][]stmt
		orelse []stmt
	}
	numForStmt struct {
		name               string
		start, limit, step expr // step may be nil
		body               []stmt
		line               int
	}
	genForStmt struct {
		names []string
		exprs []expr
		body  []stmt
		line  int
	}
	localFuncStmt struct {
		name  string
		proto *funcProto
	}
	returnStmt struct {
		exprs []expr
		line  int
	}
	breakStmt struct{}
)

// ---------------------------------------------------------------------------------------------------------------
// Parser (recursive descent, follows lparser.c of Lua 5.1)

type funcState struct {
	vararg bool
	loops  int
	parent *funcState
}

type parser struct {
	toks   []token
	pos    int
	fs     *funcState
	levels int
}

func (p *parser) peek() token { return p.toks[p.pos] }
func (p *parser) peek2() token {
	if p.pos+1 < len(p.toks) {
		return p.toks[p.pos+1]
	}
	return p.toks[len(p.toks)-1]
}
func (p *parser) next() token {
	t := p.toks[p.pos]
	if t.kind != tEOF {
		p.pos++
	}
	return t
}
func (p *parser) fail(msg string) { syntaxError(p.peek().line, msg, p.peek().text()) }

func (p *parser) checkOp(s string) bool { return p.peek().is(tOp, s) }
func (p *parser) checkKw(s string) bool { return p.peek().is(tKeyword, s) }
func (p *parser) accept(kind tokKind, s string) bool {
	if p.peek().is(kind, s) {
		p.next()
		return true
	}
	return false
}
func (p *parser) expect(kind tokKind, s string) token {
	if !p.peek().is(kind, s) {
		p.fail("'" + s + "' expected")
	}
	return p.next()
}
func (p *parser) expectName() string {
	if p.peek().kind != tName {
		p.fail("<name> expected")
	}
	return p.next().s
}
func (p *parser) enter() {
	if p.levels++; p.levels > maxSyntax {
		syntaxError(p.peek().line, "chunk has too many syntax levels", "")
	}
}
func (p *parser) leave() { p.levels-- }

func (p *parser) blockEnd() bool {
	t := p.peek()
	return t.kind == tEOF || (t.kind == tKeyword && (t.s == "end" || t.s == "else" || t.s == "elseif" || t.s == "until"))
}

func (p *parser) block() []stmt {
	p.enter()
	defer p.leave()
	var out []stmt
	for !p.blockEnd() {
		s, last := p.statement()
		out = append(out, s)
		p.accept(tOp, ";")
		if last {
			break
		}
	}
	return out
}

func (p *parser) loopBody() []stmt {
	p.fs.loops++
	body := p.block()
	p.fs.loops--
	return body
}

func (p *parser) statement() (s stmt, last bool) {
	t := p.peek()
	if t.kind != tKeyword {
		return p.exprStat(), false
	}
	switch t.s {
	case "if":
		return p.ifStat(), false
	case "while":
		p.next()
		cond := p.expr()
		p.expect(tKeyword, "do")
		body := p.loopBody()
		p.expect(tKeyword, "end")
		return &whileStmt{cond: cond, body: body}, false
	case "do":
		p.next()
		body := p.block()
		p.expect(tKeyword, "end")
		return &doStmt{body: body}, false
	case "for":
		return p.forStat(), false
	case "repeat":
		p.next()
		body := p.loopBody()
		p.expect(tKeyword, "until")
		return &repeatStmt{body: body, cond: p.expr()}, false
	case "function":
		p.next()
		var target expr = &nameExpr{name: p.expectName(), line: t.line}
		fullName := target.(*nameExpr).name
		method := false
		for p.checkOp(".") || p.checkOp(":") {
			method = p.next().s == ":"
			key := p.expectName()
			fullName += "." + key
			target = &indexExpr{obj: target, key: &constExpr{v: key}, line: t.line}
			if method {
				break
			}
		}
		f := p.funcBody(fullName, method)
		return &assignStmt{targets: []expr{target}, exprs: []expr{f}, line: t.line}, false
	case "local":
		p.next()
		if p.accept(tKeyword, "function") {
			name := p.expectName()
			return &localFuncStmt{name: name, proto: p.funcBody(name, false).proto}, false
		}
		st := &localStmt{names: []string{p.expectName()}}
		for p.accept(tOp, ",") {
			st.names = append(st.names, p.expectName())
		}
		if p.accept(tOp, "=") {
			st.exprs = p.exprList()
		}
		return st, false
	case "return":
		p.next()
		st := &returnStmt{line: t.line}
		if !p.blockEnd() && !p.checkOp(";") {
			st.exprs = p.exprList()
		}
		return st, true
	case "break":
		p.next()
		if p.fs.loops == 0 {
			syntaxError(t.line, "no loop to break", p.peek().text())
		}
		return &breakStmt{}, true
	}
	return p.exprStat(), false
}

func (p *parser) ifStat() stmt {
	st := &ifStmt{}
	for {
		p.next() // if / elseif
		st.conds = append(st.conds, p.expr())
		p.expect(tKeyword, "then")
		st.blocks = append(st.blocks, p.block())
		if !p.checkKw("elseif") {
			break
		}
	}
	if p.accept(tKeyword, "else") {
		st.orelse = p.block()
		if st.orelse == nil {
			st.orelse = []stmt{}
		}
	}
	p.expect(tKeyword, "end")
	return st
}

func (p *parser) forStat() stmt {
	line := p.next().line
	names := []string{p.expectName()}
	if p.accept(tOp, "=") {
		st := &numForStmt{name: names[0], line: line}
		st.start = p.expr()
		p.expect(tOp, ",")
		st.limit = p.expr()
		if p.accept(tOp, ",") {
			st.step = p.expr()
		}
		p.expect(tKeyword, "do")
		st.body = p.loopBody()
		p.expect(tKeyword, "end")
		return st
	}
	for p.accept(tOp, ",") {
		names = append(names, p.expectName())
	}
	if !p.checkKw("in") {
		p.fail("'=' or 'in' expected")
	}
	p.next()
	st := &genForStmt{names: names, exprs: p.exprList(), line: line}
	p.expect(tKeyword, "do")
	st.body = p.loopBody()
	p.expect(tKeyword, "end")
	return st
}

func (p *parser) exprStat() stmt {
	line := p.peek().line
	e := p.primaryExpr()
	if call, ok := e.(*callExpr); ok && !p.checkOp("=") && !p.checkOp(",") {
		return &callStmt{call: call}
	}
	targets := []expr{e}
	for {
		switch targets[len(targets)-1].(type) {
		case *nameExpr, *indexExpr:
		default:
			p.fail("syntax error")
		}
		if !p.accept(tOp, ",") {
			break
		}
		targets = append(targets, p.primaryExpr())
	}
	p.expect(tOp, "=")
	return &assignStmt{targets: targets, exprs: p.exprList(), line: line}
}

func (p *parser) exprList() []expr {
	list := []expr{p.expr()}
	for p.accept(tOp, ",") {
		list = append(list, p.expr())
	}
	return list
}

func (p *parser) funcBody(name string, method bool) *funcExpr {
	proto := &funcProto{name: name}
	if method {
		proto.params = append(proto.params, "self")
	}
	p.expect(tOp, "(")
	for !p.checkOp(")") {
		if p.accept(tOp, "...") {
			proto.vararg = true
			break
		}
		proto.params = append(proto.params, p.expectName())
		if !p.accept(tOp, ",") {
			break
		}
	}
	p.expect(tOp, ")")
	p.fs = &funcState{vararg: proto.vararg, parent: p.fs}
	proto.body = p.block()
	p.fs = p.fs.parent
	p.expect(tKeyword, "end")
	return &funcExpr{proto: proto}
}

func (p *parser) primaryExpr() expr {
	var e expr
	t := p.peek()
	switch {
	case t.kind == tName:
		p.next()
		e = &nameExpr{name: t.s, line: t.line}
	case t.is(tOp, "("):
		p.next()
		e = &parenExpr{e: p.expr()}
		p.expect(tOp, ")")
	default:
		p.fail("unexpected symbol")
	}
	for {
		t = p.peek()
		switch {
		case t.is(tOp, "."):
			p.next()
			e = &indexExpr{obj: e, key: &constExpr{v: p.expectName()}, line: t.line}
		case t.is(tOp, "["):
			p.next()
			e = &indexExpr{obj: e, key: p.expr(), line: t.line}
			p.expect(tOp, "]")
		case t.is(tOp, ":"):
			p.next()
			name := p.expectName()
			e = &callExpr{fn: e, method: name, args: p.callArgs(), line: t.line}
		case t.is(tOp, "("), t.is(tOp, "{"), t.kind == tString:
			e = &callExpr{fn: e, args: p.callArgs(), line: t.line}
		default:
			return e
		}
	}
}

func (p *parser) callArgs() []expr {
	t := p.peek()
	switch {
	case t.kind == tString:
		p.next()
		return []expr{&constExpr{v: t.s}}
	case t.is(tOp, "{"):
		return []expr{p.tableConstructor()}
	case t.is(tOp, "("):
		if p.pos > 0 && p.toks[p.pos-1].line != t.line {
			p.fail("ambiguous syntax (function call x new statement)")
		}
		p.next()
		var args []expr
		if !p.checkOp(")") {
			args = p.exprList()
		}
		p.expect(tOp, ")")
		return args
	}
	p.fail("function arguments expected")
	return nil
}

func (p *parser) tableConstructor() expr {
	te := &tableExpr{line: p.expect(tOp, "{").line}
	for !p.checkOp("}") {
		switch {
		case p.checkOp("["):
			p.next()
			key := p.expr()
			p.expect(tOp, "]")
			p.expect(tOp, "=")
			te.items = append(te.items, tableItem{key: key, val: p.expr()})
		case p.peek().kind == tName && p.peek2().is(tOp, "="):
			key := &constExpr{v: p.next().s}
			p.next()
			te.items = append(te.items, tableItem{key: key, val: p.expr()})
		default:
			te.items = append(te.items, tableItem{val: p.expr()})
		}
		if !p.accept(tOp, ",") && !p.accept(tOp, ";") {
			break
		}
	}
	p.expect(tOp, "}")
	return te
}

func (p *parser) simpleExpr() expr {
	t := p.peek()
	switch {
	case t.kind == tNumber:
		p.next()
		return &constExpr{v: t.n}
	case t.kind == tString:
		p.next()
		return &constExpr{v: t.s}
	case t.is(tKeyword, "nil"):
		p.next()
		return &constExpr{v: nil}
	case t.is(tKeyword, "true"):
		p.next()
		return &constExpr{v: true}
	case t.is(tKeyword, "false"):
		p.next()
		return &constExpr{v: false}
	case t.is(tOp, "..."):
		if !p.fs.vararg {
			p.fail("cannot use '...' outside a vararg function")
		}
		p.next()
		return &varargExpr{}
	case t.is(tOp, "{"):
		return p.tableConstructor()
	case t.is(tKeyword, "function"):
		p.next()
		return p.funcBody("anonymous", false)
	}
	return p.primaryExpr()
}

// binary operator priorities {left, right}; `..` and `^` are right associative.
var binPrio = map[string][2]int{
	"or": {1, 1}, "and": {2, 2},
	"<": {3, 3}, ">": {3, 3}, "<=": {3, 3}, ">=": {3, 3}, "~=": {3, 3}, "==": {3, 3},
	"..": {5, 4}, "+": {6, 6}, "-": {6, 6}, "*": {7, 7}, "/": {7, 7}, "%": {7, 7}, "^": {10, 9},
}

const unaryPrio = 8

func (p *parser) expr() expr { return p.subExpr(0) }

func (p *parser) subExpr(limit int) expr {
	p.enter()
	defer p.leave()
	var e expr
	t := p.peek()
	if t.is(tKeyword, "not") || t.is(tOp, "-") || t.is(tOp, "#") {
		p.next()
		e = &unExpr{op: t.s, e: p.subExpr(unaryPrio), line: t.line}
	} else {
		e = p.simpleExpr()
	}
	for {
		t = p.peek()
		if t.kind != tOp && t.kind != tKeyword {
			return e
		}
		prio, ok := binPrio[t.s]
		if !ok || prio[0] <= limit {
			return e
		}
		p.next()
		e = &binExpr{op: t.s, l: e, r: p.subExpr(prio[1]), line: t.line}
	}
}

// Chunk is a compiled script; it is immutable and can be run many times, also concurrently.
type Chunk struct{ main *Function }

// Compile parses the script. A syntax error is reported as *ScriptError, an unsupported construct as
// *UnsupportedError.
func Compile(script string) (c *Chunk, err error) {
	defer func() {
		if r := recover(); r != nil {
			switch e := r.(type) {
			case *ScriptError:
				c, err = nil, e
			case *UnsupportedError:
				c, err = nil, e
			default:
				panic(r)
			}
		}
	}()
	p := &parser{toks: tokenize(script), fs: &funcState{vararg: true}}
	body := p.block()
	if p.peek().kind != tEOF {
		p.fail("'<eof>' expected")
	}
	proto := &funcProto{name: "main chunk", vararg: true, body: body}
	return &Chunk{main: &Function{name: proto.name, proto: proto, id: idCounter.Add(1)}}, nil
}

// ---------------------------------------------------------------------------------------------------------------
// Evaluator

type cell struct{ v Value }

// scope holds the variables of one declaration (a local statement, the parameters of a call, a loop iteration).
// Scopes form a chain; a closure captures the chain as it was when the closure was created, so it shares variables
// (not values) with its environment and each loop iteration gets fresh variables.
type scope struct {
	vars   map[string]*cell
	parent *scope
}

func (s *scope) declare(name string, v Value) {
	if s.vars == nil {
		s.vars = map[string]*cell{}
	}
	s.vars[name] = &cell{v: v}
}

func (s *scope) lookup(name string) *cell {
	for ; s != nil; s = s.parent {
		if c, ok := s.vars[name]; ok {
			return c
		}
	}
	return nil
}

type frame struct{ varargs []Value }

type luaError struct{ val Value } // panic payload of a Lua error; caught by pcall and Run
type budgetError struct{}         // panic payload when MaxSteps is exceeded; caught by Run only

type ctl int

const (
	ctlNone ctl = iota
	ctlBreak
	ctlReturn
	ctlTail // return f(args): the callee and its arguments are in interp.tailFn/tailArgs
)

type interp struct {
	host     Host
	globals  map[string]Value
	steps    int
	maxSteps int
	depth    int
	line     int // line of the call being executed, used for errors raised by builtins
	tailFn   *Function
	tailArgs []Value
}

func (in *interp) step() {
	if in.steps++; in.steps > in.maxSteps {
		panic(budgetError{})
	}
}

// throw raises a Lua error with position information, like luaG_runerror.
func (in *interp) throw(line int, format string, a ...any) {
	panic(&luaError{val: fmt.Sprintf("%s:%d: ", chunkName, line) + fmt.Sprintf(format, a...)})
}

// Run executes the chunk with the given KEYS and ARGV and returns the first value returned by the script.
func (c *Chunk) Run(keys, argv []string, host Host) (result Value, err error) {
	in := &interp{host: host, maxSteps: MaxSteps, globals: make(map[string]Value, len(baseGlobals)+2)}
	for k, v := range baseGlobals {
		in.globals[k] = v
	}
	in.globals["KEYS"], in.globals["ARGV"] = stringTable(keys), stringTable(argv)
	defer func() {
		if r := recover(); r != nil {
			result = nil
			switch e := r.(type) {
			case *luaError:
				t, isTable := e.val.(*Table)
				if isTable {
					_, isTable = t.Get("err").(string)
				}
				err = &ScriptError{Msg: errorMessage(e.val), Table: isTable, Line: in.line}
			case budgetError:
				err = &ScriptError{Msg: "script exceeded the step budget", Budget: true}
			case *UnsupportedError:
				err = e
			default:
				panic(r)
			}
		}
	}()
	if vals := in.call(c.main, nil); len(vals) > 0 {
		return vals[0], nil
	}
	return nil, nil
}

func stringTable(ss []string) *Table {
	t := NewTable()
	for _, s := range ss {
		t.Append(s)
	}
	return t
}

// errorMessage renders an error value the way Redis reports it to the client.
func errorMessage(v Value) string {
	switch x := v.(type) {
	case string:
		return x
	case float64:
		return fmtNumber(x)
	case *Table:
		if s, ok := x.Get("err").(string); ok {
			return s
		}
	}
	return "(error object is a " + typeName(v) + " value)"
}

// call invokes f. Tail calls of Lua functions are executed in a loop so that they do not consume stack.
func (in *interp) call(f *Function, args []Value) []Value {
	if in.depth++; in.depth > maxCallDepth {
		in.depth--
		panic(&luaError{val: "stack overflow"})
	}
	for {
		if f.native != nil {
			rets := f.native(in, args)
			in.depth--
			return rets
		}
		p := f.proto
		sc := &scope{parent: f.env}
		for i, name := range p.params {
			if i < len(args) {
				sc.declare(name, args[i])
			} else {
				sc.declare(name, nil)
			}
		}
		fr := &frame{}
		if p.vararg && len(args) > len(p.params) {
			fr.varargs = args[len(p.params):]
		}
		c, vals := in.execBlock(p.body, sc, fr)
		if c == ctlTail {
			f, args = in.tailFn, in.tailArgs
			in.tailFn, in.tailArgs = nil, nil
			continue
		}
		in.depth--
		return vals
	}
}

func (in *interp) callValue(fn Value, args []Value, line int) []Value {
	f, ok := fn.(*Function)
	if !ok {
		in.throw(line, "attempt to call a %s value", typeName(fn))
	}
	in.line = line
	return in.call(f, args)
}

func (in *interp) execBlock(body []stmt, sc *scope, fr *frame) (ctl, []Value) {
	c, vals, _ := in.runBlock(body, sc, fr)
	return c, vals
}

// runBlock executes the statements of a block. Every local declaration opens a new scope for the statements that
// follow it, so that closures created earlier never see locals declared later (lexical scoping). The scope in
// effect at the end of the block is returned for repeat-until, whose condition sees the body's locals.
func (in *interp) runBlock(body []stmt, sc *scope, fr *frame) (ctl, []Value, *scope) {
	for _, s := range body {
		switch s := s.(type) {
		case *localStmt:
			in.step()
			vals := in.evalList(s.exprs, sc, fr, len(s.names))
			sc = &scope{parent: sc}
			for i, name := range s.names {
				sc.declare(name, vals[i])
			}
		case *localFuncStmt:
			in.step()
			sc = &scope{parent: sc}
			sc.declare(s.name, nil) // declared first so that the body can refer to itself
			sc.vars[s.name].v = &Function{name: s.name, proto: s.proto, env: sc, id: idCounter.Add(1)}
		default:
			if c, vals := in.exec(s, sc, fr); c != ctlNone {
				return c, vals, sc
			}
		}
	}
	return ctlNone, nil, sc
}

func (in *interp) exec(s stmt, sc *scope, fr *frame) (ctl, []Value) {
	in.step()
	switch s := s.(type) {
	case *assignStmt:
		in.execAssign(s, sc, fr)
	case *callStmt:
		in.evalCall(s.call, sc, fr)
	case *doStmt:
		return in.execBlock(s.body, &scope{parent: sc}, fr)
	case *ifStmt:
		for i, cond := range s.conds {
			if truthy(in.eval(cond, sc, fr)) {
				return in.execBlock(s.blocks[i], &scope{parent: sc}, fr)
			}
		}
		if s.orelse != nil {
			return in.execBlock(s.orelse, &scope{parent: sc}, fr)
		}
	case *whileStmt:
		for truthy(in.eval(s.cond, sc, fr)) {
			if c, vals := in.execBlock(s.body, &scope{parent: sc}, fr); c == ctlBreak {
				break
			} else if c != ctlNone {
				return c, vals
			}
			in.step()
		}
	case *repeatStmt:
		for {
			c, vals, inner := in.runBlock(s.body, &scope{parent: sc}, fr)
			if c == ctlBreak {
				break
			} else if c != ctlNone {
				return c, vals
			}
			if truthy(in.eval(s.cond, inner, fr)) { // the condition sees the body's locals
				break
			}
			in.step()
		}
	case *numForStmt:
		return in.execNumFor(s, sc, fr)
	case *genForStmt:
		return in.execGenFor(s, sc, fr)
	case *returnStmt:
		if len(s.exprs) == 1 {
			if call, ok := s.exprs[0].(*callExpr); ok {
				fn, args := in.prepareCall(call, sc, fr)
				f, ok := fn.(*Function)
				if !ok {
					in.throw(call.line, "attempt to call a %s value", typeName(fn))
				}
				in.line = call.line
				in.tailFn, in.tailArgs = f, args
				return ctlTail, nil
			}
		}
		return ctlReturn, in.evalList(s.exprs, sc, fr, -1)
	case *breakStmt:
		return ctlBreak, nil
	default:
		unsupported("statement %T", s)
	}
	return ctlNone, nil
}

func (in *interp) execAssign(s *assignStmt, sc *scope, fr *frame) {
	type ref struct{ obj, key Value }
	refs := make([]ref, len(s.targets))
	for i, t := range s.targets {
		if ix, ok := t.(*indexExpr); ok {
			refs[i] = ref{in.eval(ix.obj, sc, fr), in.eval(ix.key, sc, fr)}
		}
	}
	vals := in.evalList(s.exprs, sc, fr, len(s.targets))
	for i := len(s.targets) - 1; i >= 0; i-- { // Lua assigns right to left
		switch t := s.targets[i].(type) {
		case *nameExpr:
			if c := sc.lookup(t.name); c != nil {
				c.v = vals[i]
			} else {
				in.globals[t.name] = vals[i]
			}
		case *indexExpr:
			in.setIndex(refs[i].obj, refs[i].key, vals[i], t.line)
		}
	}
}

func (in *interp) forNumber(e expr, what string, sc *scope, fr *frame, line int) float64 {
	n, ok := toNumber(in.eval(e, sc, fr))
	if !ok {
		in.throw(line, "'for' %s must be a number", what)
	}
	return n
}

func (in *interp) execNumFor(s *numForStmt, sc *scope, fr *frame) (ctl, []Value) {
	i := in.forNumber(s.start, "initial value", sc, fr, s.line)
	limit := in.forNumber(s.limit, "limit", sc, fr, s.line)
	step := 1.0
	if s.step != nil {
		step = in.forNumber(s.step, "step", sc, fr, s.line)
	}
	for ; (step > 0 && i <= limit) || (step <= 0 && i >= limit); i += step {
		in.step()
		inner := &scope{parent: sc}
		inner.declare(s.name, i)
		if c, vals := in.execBlock(s.body, inner, fr); c == ctlBreak {
			break
		} else if c != ctlNone {
			return c, vals
		}
	}
	return ctlNone, nil
}

func (in *interp) execGenFor(s *genForStmt, sc *scope, fr *frame) (ctl, []Value) {
	init := in.evalList(s.exprs, sc, fr, 3)
	iter, state, control := init[0], init[1], init[2]
	for {
		in.step()
		rets := in.callValue(iter, []Value{state, control}, s.line)
		if len(rets) == 0 || rets[0] == nil {
			return ctlNone, nil
		}
		control = rets[0]
		inner := &scope{parent: sc}
		for i, name := range s.names {
			if i < len(rets) {
				inner.declare(name, rets[i])
			} else {
				inner.declare(name, nil)
			}
		}
		if c, vals := in.execBlock(s.body, inner, fr); c == ctlBreak {
			return ctlNone, nil
		} else if c != ctlNone {
			return c, vals
		}
	}
}

// evalList evaluates an expression list; the last expression is expanded to all its values. With want >= 0 the
// result is adjusted (truncated or padded with nil) to exactly want values.
func (in *interp) evalList(exprs []expr, sc *scope, fr *frame, want int) []Value {
	vals := make([]Value, 0, len(exprs)+2)
	for i, e := range exprs {
		if i == len(exprs)-1 {
			vals = append(vals, in.evalMulti(e, sc, fr)...)
		} else {
			vals = append(vals, in.eval(e, sc, fr))
		}
	}
	if want >= 0 {
		for len(vals) < want {
			vals = append(vals, nil)
		}
		vals = vals[:want]
	}
	return vals
}

// evalMulti evaluates an expression in a context that accepts multiple values (calls and `...`).
func (in *interp) evalMulti(e expr, sc *scope, fr *frame) []Value {
	switch e := e.(type) {
	case *callExpr:
		in.step()
		return in.evalCall(e, sc, fr)
	case *varargExpr:
		in.step()
		return fr.varargs
	}
	return []Value{in.eval(e, sc, fr)}
}

func (in *interp) prepareCall(e *callExpr, sc *scope, fr *frame) (Value, []Value) {
	fn := in.eval(e.fn, sc, fr)
	if e.method == "" {
		return fn, in.evalList(e.args, sc, fr, -1)
	}
	self := fn
	fn = in.index(self, e.method, e.line)
	return fn, append([]Value{self}, in.evalList(e.args, sc, fr, -1)...)
}

func (in *interp) evalCall(e *callExpr, sc *scope, fr *frame) []Value {
	fn, args := in.prepareCall(e, sc, fr)
	return in.callValue(fn, args, e.line)
}

func (in *interp) eval(e expr, sc *scope, fr *frame) Value {
	in.step()
	switch e := e.(type) {
	case *constExpr:
		return e.v
	case *nameExpr:
		if c := sc.lookup(e.name); c != nil {
			return c.v
		}
		v, ok := in.globals[e.name]
		if !ok {
			if unsupportedGlobals[e.name] {
				unsupported("global %q", e.name)
			}
			in.throw(e.line, "Script attempted to access nonexistent global variable '%s'", e.name)
		}
		return v
	case *indexExpr:
		return in.index(in.eval(e.obj, sc, fr), in.eval(e.key, sc, fr), e.line)
	case *callExpr:
		if vals := in.evalCall(e, sc, fr); len(vals) > 0 {
			return vals[0]
		}
		return nil
	case *varargExpr:
		if len(fr.varargs) > 0 {
			return fr.varargs[0]
		}
		return nil
	case *parenExpr:
		return in.eval(e.e, sc, fr)
	case *funcExpr:
		return &Function{name: e.proto.name, proto: e.proto, env: sc, id: idCounter.Add(1)}
	case *tableExpr:
		return in.evalTable(e, sc, fr)
	case *unExpr:
		return in.evalUnary(e, in.eval(e.e, sc, fr))
	case *binExpr:
		switch e.op {
		case "and":
			if l := in.eval(e.l, sc, fr); !truthy(l) {
				return l
			}
			return in.eval(e.r, sc, fr)
		case "or":
			if l := in.eval(e.l, sc, fr); truthy(l) {
				return l
			}
			return in.eval(e.r, sc, fr)
		}
		l := in.eval(e.l, sc, fr)
		return in.evalBinary(e, l, in.eval(e.r, sc, fr))
	}
	unsupported("expression %T", e)
	return nil
}

func (in *interp) evalTable(e *tableExpr, sc *scope, fr *frame) Value {
	t := NewTable()
	var positional []Value
	for i, item := range e.items {
		switch {
		case item.key != nil:
			k := in.eval(item.key, sc, fr)
			in.setIndex(t, k, in.eval(item.val, sc, fr), e.line)
		case i == len(e.items)-1:
			positional = append(positional, in.evalMulti(item.val, sc, fr)...)
		default:
			positional = append(positional, in.eval(item.val, sc, fr))
		}
	}
	if len(positional) > 0 {
		t.setArray(positional)
	}
	return t
}

func (in *interp) index(obj, key Value, line int) Value {
	switch o := obj.(type) {
	case *Table:
		v := o.Get(key)
		if v == nil && o.lib != "" {
			unsupported("%s.%v", o.lib, key)
		}
		return v
	case string:
		return in.index(stringLib, key, line) // strings index the string library, e.g. s:len()
	}
	in.throw(line, "attempt to index a %s value", typeName(obj))
	return nil
}

func (in *interp) setIndex(obj, key, v Value, line int) {
	t, ok := obj.(*Table)
	if !ok {
		in.throw(line, "attempt to index a %s value", typeName(obj))
	}
	if t.lib != "" {
		in.throw(line, "Attempt to modify a readonly table")
	}
	if key == nil {
		in.throw(line, "table index is nil")
	}
	if f, ok := key.(float64); ok && f != f {
		in.throw(line, "table index is NaN")
	}
	typeName(key) // both calls reject Go values that are not Lua values
	typeName(v)
	t.Set(key, v)
}

func (in *interp) evalUnary(e *unExpr, v Value) Value {
	switch e.op {
	case "not":
		return !truthy(v)
	case "-":
		n, ok := toNumber(v)
		if !ok {
			in.throw(e.line, "attempt to perform arithmetic on a %s value", typeName(v))
		}
		return -n
	case "#":
		switch x := v.(type) {
		case string:
			return float64(len(x))
		case *Table:
			return float64(x.Len())
		}
		in.throw(e.line, "attempt to get length of a %s value", typeName(v))
	}
	unsupported("unary operator %q", e.op)
	return nil
}

func (in *interp) evalBinary(e *binExpr, l, r Value) Value {
	switch e.op {
	case "==":
		return l == r
	case "~=":
		return l != r
	case "<":
		return in.less(l, r, e.line)
	case ">":
		return in.less(r, l, e.line)
	case "<=":
		return in.lessEq(l, r, e.line)
	case ">=":
		return in.lessEq(r, l, e.line)
	case "..":
		ls, lok := toStringCoerce(l)
		rs, rok := toStringCoerce(r)
		if !lok {
			in.throw(e.line, "attempt to concatenate a %s value", typeName(l))
		}
		if !rok {
			in.throw(e.line, "attempt to concatenate a %s value", typeName(r))
		}
		return ls + rs
	}
	a, aok := toNumber(l)
	b, bok := toNumber(r)
	if !aok {
		in.throw(e.line, "attempt to perform arithmetic on a %s value", typeName(l))
	}
	if !bok {
		in.throw(e.line, "attempt to perform arithmetic on a %s value", typeName(r))
	}
	switch e.op {
	case "+":
		return a + b
	case "-":
		return a - b
	case "*":
		return a * b
	case "/":
		return a / b
	case "%":
		return a - math.Floor(a/b)*b
	case "^":
		return math.Pow(a, b)
	}
	unsupported("binary operator %q", e.op)
	return nil
}

func (in *interp) compareError(l, r Value, line int) {
	if tl, tr := typeName(l), typeName(r); tl == tr {
		in.throw(line, "attempt to compare two %s values", tl)
	} else {
		in.throw(line, "attempt to compare %s with %s", tl, tr)
	}
}

func (in *interp) less(l, r Value, line int) bool {
	switch a := l.(type) {
	case float64:
		if b, ok := r.(float64); ok {
			return a < b
		}
	case string:
		if b, ok := r.(string); ok {
			return a < b
		}
	}
	in.compareError(l, r, line)
	return false
}

func (in *interp) lessEq(l, r Value, line int) bool {
	switch a := l.(type) {
	case float64:
		if b, ok := r.(float64); ok {
			return a <= b
		}
	case string:
		if b, ok := r.(string); ok {
			return a <= b
		}
	}
	in.compareError(l, r, line)
	return false
}

// ---------------------------------------------------------------------------------------------------------------
// Built-in library: base functions, table, math, string and the redis API table.
//
// All library tables are created once and shared by every Run; this is safe because scripts cannot modify them
// (Table.lib marks them read-only) and builtins keep their state in the *interp they receive.

type native = func(in *interp, args []Value) []Value

var (
	baseGlobals map[string]Value // copied into the global table of every Run
	stringLib   *Table
)

// unsupportedGlobals are names of standard Lua / Redis globals that lualite does not provide. Reading one of them
// is a harness gap rather than the "nonexistent global variable" script error.
var unsupportedGlobals = map[string]bool{"_G": true, "_VERSION": true, "setmetatable": true, "getmetatable": true,
	"rawget": true, "rawset": true, "rawequal": true, "loadstring": true, "load": true, "dofile": true,
	"loadfile": true, "require": true, "module": true, "package": true, "print": true, "collectgarbage": true,
	"gcinfo": true, "newproxy": true, "xpcall": true, "setfenv": true, "getfenv": true, "coroutine": true,
	"os": true, "io": true, "debug": true, "cjson": true, "cmsgpack": true, "bit": true, "struct": true}

func newFunc(name string, f native) *Function {
	return &Function{name: name, native: f, id: idCounter.Add(1)}
}

func newLib(name string, fns map[string]native, consts map[string]Value) *Table {
	t := NewTable()
	for k, f := range fns {
		t.Set(k, newFunc(name+"."+k, f))
	}
	for k, v := range consts {
		t.Set(k, v)
	}
	t.lib = name
	return t
}

func init() {
	stringLib = newLib("string", map[string]native{"len": strLen, "sub": strSub, "rep": strRep, "format": strFormat,
		"lower": strLower, "upper": strUpper, "byte": strByte, "char": strChar, "find": strFind,
		"reverse": strReverse}, nil)
	tableLib := newLib("table", map[string]native{"insert": tblInsert, "remove": tblRemove, "concat": tblConcat,
		"unpack": baseUnpack}, nil)
	mathLib := newLib("math", map[string]native{"floor": math1("floor", math.Floor), "ceil": math1("ceil", math.Ceil),
		"abs": math1("abs", math.Abs), "sqrt": math1("sqrt", math.Sqrt), "max": mathMax, "min": mathMin,
		"pow": func(in *interp, a []Value) []Value {
			return one(math.Pow(in.argNumber(a, 0, "pow"), in.argNumber(a, 1, "pow")))
		},
		"fmod": func(in *interp, a []Value) []Value {
			return one(math.Mod(in.argNumber(a, 0, "fmod"), in.argNumber(a, 1, "fmod")))
		},
	}, map[string]Value{"huge": math.Inf(1), "pi": math.Pi})
	redisLib := newLib("redis", map[string]native{
		"call":         func(in *interp, a []Value) []Value { return redisCall(in, a, false) },
		"pcall":        func(in *interp, a []Value) []Value { return redisCall(in, a, true) },
		"error_reply":  func(in *interp, a []Value) []Value { return one(replyTable(in, a, "err", "error_reply")) },
		"status_reply": func(in *interp, a []Value) []Value { return one(replyTable(in, a, "ok", "status_reply")) },
		"log":          func(in *interp, a []Value) []Value { return nil },
		"setresp":      redisSetresp,
		"sha1hex":      redisSha1hex,
	}, map[string]Value{"LOG_DEBUG": 0.0, "LOG_VERBOSE": 1.0, "LOG_NOTICE": 2.0, "LOG_WARNING": 3.0})

	baseGlobals = map[string]Value{"string": stringLib, "table": tableLib, "math": mathLib, "redis": redisLib}
	for name, f := range map[string]native{"tonumber": baseTonumber, "tostring": baseTostring, "type": baseType,
		"unpack": baseUnpack, "select": baseSelect, "ipairs": baseIpairs, "pairs": basePairs, "next": baseNext,
		"error": baseError, "pcall": basePcall, "assert": baseAssert} {
		baseGlobals[name] = newFunc(name, f)
	}
}

func one(v Value) []Value { return []Value{v} }

// ---------------------------------------------------------------------------------------------------------------
// Argument checking (luaL_check*)

func (in *interp) argError(i int, fname, msg string) {
	in.throw(in.line, "bad argument #%d to '%s' (%s)", i+1, fname, msg)
}

func argTypeName(args []Value, i int) string {
	if i >= len(args) {
		return "no value"
	}
	return typeName(args[i])
}

func (in *interp) argAny(args []Value, i int, fname string) Value {
	if i >= len(args) {
		in.argError(i, fname, "value expected")
	}
	return args[i]
}

func (in *interp) argNumber(args []Value, i int, fname string) float64 {
	if i < len(args) {
		if n, ok := toNumber(args[i]); ok {
			return n
		}
	}
	in.argError(i, fname, "number expected, got "+argTypeName(args, i))
	return 0
}

// argInt converts like a C cast (truncation); values a script cannot reasonably mean are rejected as unsupported.
func (in *interp) argInt(args []Value, i int, fname string) int {
	f := in.argNumber(args, i, fname)
	if f != f || math.Abs(f) > 1<<53 {
		unsupported("integer argument %v to %s", f, fname)
	}
	return int(f)
}

func (in *interp) optInt(args []Value, i int, fname string, def int) int {
	if i >= len(args) || args[i] == nil {
		return def
	}
	return in.argInt(args, i, fname)
}

func (in *interp) argString(args []Value, i int, fname string) string {
	if i < len(args) {
		if s, ok := toStringCoerce(args[i]); ok {
			return s
		}
	}
	in.argError(i, fname, "string expected, got "+argTypeName(args, i))
	return ""
}

func (in *interp) argTable(args []Value, i int, fname string) *Table {
	if i < len(args) {
		if t, ok := args[i].(*Table); ok {
			return t
		}
	}
	in.argError(i, fname, "table expected, got "+argTypeName(args, i))
	return nil
}

// ---------------------------------------------------------------------------------------------------------------
// Base functions

func baseTonumber(in *interp, args []Value) []Value {
	v := in.argAny(args, 0, "tonumber")
	base := in.optInt(args, 1, "tonumber", 10)
	if base == 10 {
		if n, ok := toNumber(v); ok {
			return one(n)
		}
		return one(nil)
	}
	if base < 2 || base > 36 {
		in.argError(1, "tonumber", "base out of range")
	}
	s := strings.TrimFunc(in.argString(args, 0, "tonumber"), func(r rune) bool { return r < 0x80 && isSpace(byte(r)) })
	if strings.HasPrefix(s, "-") {
		unsupported("tonumber of negative %q with base %d", s, base)
	}
	s = strings.TrimPrefix(s, "+")
	if base == 16 && len(s) > 2 && s[0] == '0' && s[1]|0x20 == 'x' {
		s = s[2:]
	}
	u, err := strconv.ParseUint(s, base, 64)
	if err != nil || strings.Contains(s, "_") {
		return one(nil)
	}
	return one(float64(u))
}

func tostringValue(v Value) string {
	switch x := v.(type) {
	case nil:
		return "nil"
	case bool:
		return strconv.FormatBool(x)
	case float64:
		return fmtNumber(x)
	case string:
		return x
	}
	unsupported("tostring of a %s (the result would be address dependent)", typeName(v))
	return ""
}

func baseTostring(in *interp, args []Value) []Value {
	return one(tostringValue(in.argAny(args, 0, "tostring")))
}

func baseType(in *interp, args []Value) []Value { return one(typeName(in.argAny(args, 0, "type"))) }

func baseUnpack(in *interp, args []Value) []Value {
	t := in.argTable(args, 0, "unpack")
	i := in.optInt(args, 1, "unpack", 1)
	j := in.optInt(args, 2, "unpack", t.Len())
	if i > j {
		return nil
	}
	if j-i+1 >= 8000 { // LUAI_MAXCSTACK
		in.throw(in.line, "too many results to unpack")
	}
	out := make([]Value, 0, j-i+1)
	for ; i <= j; i++ {
		out = append(out, t.Get(float64(i)))
	}
	return out
}

func baseSelect(in *interp, args []Value) []Value {
	if len(args) > 0 && args[0] == "#" {
		return one(float64(len(args) - 1))
	}
	n := in.argInt(args, 0, "select")
	rest := args[1:]
	if n < 0 {
		n = len(rest) + n + 1
	}
	if n < 1 {
		in.argError(0, "select", "index out of range")
	}
	if n > len(rest) {
		return nil
	}
	return rest[n-1:]
}

var ipairsIter = newFunc("ipairs_iterator", func(in *interp, args []Value) []Value {
	t := in.argTable(args, 0, "ipairs_iterator")
	i := float64(in.argInt(args, 1, "ipairs_iterator") + 1)
	if v := t.Get(i); v != nil {
		return []Value{i, v}
	}
	return one(nil)
})

func baseIpairs(in *interp, args []Value) []Value {
	return []Value{ipairsIter, in.argTable(args, 0, "ipairs"), 0.0}
}

// basePairs iterates over a snapshot of Table.Keys (deterministic order); keys removed during the traversal are
// skipped, keys added during the traversal are not visited (Lua leaves that case undefined).
func basePairs(in *interp, args []Value) []Value {
	t := in.argTable(args, 0, "pairs")
	keys, pos := t.Keys(), 0
	iter := newFunc("pairs_iterator", func(in *interp, _ []Value) []Value {
		for pos < len(keys) {
			k := keys[pos]
			pos++
			if v := t.Get(k); v != nil {
				return []Value{k, v}
			}
		}
		return one(nil)
	})
	return []Value{iter, t, nil}
}

func baseNext(in *interp, args []Value) []Value {
	t := in.argTable(args, 0, "next")
	keys := t.Keys()
	start := 0
	if len(args) > 1 && args[1] != nil {
		start = -1
		for i, k := range keys {
			if k == args[1] {
				start = i + 1
				break
			}
		}
		if start < 0 {
			in.throw(in.line, "invalid key to 'next'")
		}
	}
	if start < len(keys) {
		return []Value{keys[start], t.Get(keys[start])}
	}
	return one(nil)
}

func baseError(in *interp, args []Value) []Value {
	var v Value
	if len(args) > 0 {
		v = args[0]
	}
	level := in.optInt(args, 1, "error", 1)
	if s, ok := v.(string); ok {
		switch level {
		case 0:
		case 1:
			v = fmt.Sprintf("%s:%d: %s", chunkName, in.line, s)
		default:
			unsupported("error() with level %d", level)
		}
	}
	panic(&luaError{val: v})
}

func basePcall(in *interp, args []Value) (rets []Value) {
	fn := in.argAny(args, 0, "pcall")
	depth, line := in.depth, in.line
	defer func() {
		if r := recover(); r != nil {
			e, ok := r.(*luaError)
			if !ok {
				panic(r) // step budget and unsupported constructs are not catchable by the script
			}
			in.depth, in.tailFn, in.tailArgs = depth, nil, nil
			rets = []Value{false, e.val}
		}
	}()
	return append([]Value{true}, in.callValue(fn, args[1:], line)...)
}

func baseAssert(in *interp, args []Value) []Value {
	if !truthy(in.argAny(args, 0, "assert")) {
		if len(args) > 1 {
			panic(&luaError{val: args[1]})
		}
		panic(&luaError{val: "assertion failed!"})
	}
	return args
}

// ---------------------------------------------------------------------------------------------------------------
// table

func tblInsert(in *interp, args []Value) []Value {
	t := in.argTable(args, 0, "insert")
	n := t.Len()
	switch len(args) {
	case 2:
		in.setIndex(t, float64(n+1), args[1], in.line)
	case 3:
		pos := in.argInt(args, 1, "insert")
		e := n + 1
		if pos > e {
			e = pos
		}
		for i := e; i > pos; i-- {
			in.step()
			t.Set(float64(i), t.Get(float64(i-1)))
		}
		in.setIndex(t, float64(pos), args[2], in.line)
	default:
		in.throw(in.line, "wrong number of arguments to 'insert'")
	}
	return nil
}

func tblRemove(in *interp, args []Value) []Value {
	t := in.argTable(args, 0, "remove")
	n := t.Len()
	pos := in.optInt(args, 1, "remove", n)
	if pos < 1 || pos > n {
		return nil
	}
	if t.lib != "" {
		in.throw(in.line, "Attempt to modify a readonly table")
	}
	v := t.Get(float64(pos))
	for i := pos; i < n; i++ {
		in.step()
		t.Set(float64(i), t.Get(float64(i+1)))
	}
	t.Set(float64(n), nil)
	return one(v)
}

func tblConcat(in *interp, args []Value) []Value {
	t := in.argTable(args, 0, "concat")
	sep := ""
	if len(args) > 1 && args[1] != nil {
		sep = in.argString(args, 1, "concat")
	}
	i := in.optInt(args, 2, "concat", 1)
	j := in.optInt(args, 3, "concat", t.Len())
	var b strings.Builder
	for k := i; k <= j; k++ {
		in.step()
		s, ok := toStringCoerce(t.Get(float64(k)))
		if !ok {
			in.throw(in.line, "invalid value (at index %d) in table for 'concat'", k)
		}
		b.WriteString(s)
		if k < j {
			b.WriteString(sep)
		}
	}
	return one(b.String())
}

// ---------------------------------------------------------------------------------------------------------------
// math

func math1(name string, f func(float64) float64) native {
	return func(in *interp, args []Value) []Value { return one(f(in.argNumber(args, 0, name))) }
}

func mathMax(in *interp, args []Value) []Value {
	m := in.argNumber(args, 0, "max")
	for i := 1; i < len(args); i++ {
		if v := in.argNumber(args, i, "max"); v > m {
			m = v
		}
	}
	return one(m)
}

func mathMin(in *interp, args []Value) []Value {
	m := in.argNumber(args, 0, "min")
	for i := 1; i < len(args); i++ {
		if v := in.argNumber(args, i, "min"); v < m {
			m = v
		}
	}
	return one(m)
}

// ---------------------------------------------------------------------------------------------------------------
// string

// posRelat converts a possibly negative string position to an absolute one (lstrlib.c posrelat).
func posRelat(pos, length int) int {
	if pos < 0 {
		pos += length + 1
	}
	if pos < 0 {
		return 0
	}
	return pos
}

func strLen(in *interp, args []Value) []Value { return one(float64(len(in.argString(args, 0, "len")))) }

func strSub(in *interp, args []Value) []Value {
	s := in.argString(args, 0, "sub")
	start := posRelat(in.argInt(args, 1, "sub"), len(s))
	end := posRelat(in.optInt(args, 2, "sub", -1), len(s))
	if start < 1 {
		start = 1
	}
	if end > len(s) {
		end = len(s)
	}
	if start > end {
		return one("")
	}
	return one(s[start-1 : end])
}

func strRep(in *interp, args []Value) []Value {
	s := in.argString(args, 0, "rep")
	n := in.argInt(args, 1, "rep")
	if n <= 0 || s == "" {
		return one("")
	}
	if n > (64<<20)/len(s) {
		unsupported("string.rep result larger than 64 MiB")
	}
	return one(strings.Repeat(s, n))
}

func mapASCII(s string, from, to byte, delta int) string {
	b := []byte(s)
	for i, c := range b {
		if c >= from && c <= to {
			b[i] = byte(int(c) + delta)
		}
	}
	return string(b)
}

func strLower(in *interp, args []Value) []Value {
	return one(mapASCII(in.argString(args, 0, "lower"), 'A', 'Z', 32))
}

func strUpper(in *interp, args []Value) []Value {
	return one(mapASCII(in.argString(args, 0, "upper"), 'a', 'z', -32))
}

func strReverse(in *interp, args []Value) []Value {
	b := []byte(in.argString(args, 0, "reverse"))
	for i, j := 0, len(b)-1; i < j; i, j = i+1, j-1 {
		b[i], b[j] = b[j], b[i]
	}
	return one(string(b))
}

func strByte(in *interp, args []Value) []Value {
	s := in.argString(args, 0, "byte")
	i := posRelat(in.optInt(args, 1, "byte", 1), len(s))
	j := posRelat(in.optInt(args, 2, "byte", i), len(s))
	if i < 1 {
		i = 1
	}
	if j > len(s) {
		j = len(s)
	}
	var out []Value
	for ; i <= j; i++ {
		out = append(out, float64(s[i-1]))
	}
	return out
}

func strChar(in *interp, args []Value) []Value {
	b := make([]byte, len(args))
	for i := range args {
		c := in.argInt(args, i, "char")
		if c < 0 || c > 255 {
			in.argError(i, "char", "invalid value")
		}
		b[i] = byte(c)
	}
	return one(string(b))
}

// strFind supports plain searches only: either the plain flag is set or the pattern has no magic characters.
func strFind(in *interp, args []Value) []Value {
	s := in.argString(args, 0, "find")
	pat := in.argString(args, 1, "find")
	init := posRelat(in.optInt(args, 2, "find", 1), len(s)) - 1
	if init < 0 {
		init = 0
	} else if init > len(s) {
		init = len(s)
	}
	if !(len(args) > 3 && truthy(args[3])) && strings.ContainsAny(pat, "^$*+?.([%-") {
		unsupported("string.find with the Lua pattern %q (only plain searches are implemented)", pat)
	}
	idx := strings.Index(s[init:], pat)
	if idx < 0 {
		return one(nil)
	}
	return []Value{float64(init + idx + 1), float64(init + idx + len(pat))}
}

// strFormat implements %d %i %u %c %x %X %o %e %E %f %g %G %s %% with flags, width and precision.
func strFormat(in *interp, args []Value) []Value {
	f := in.argString(args, 0, "format")
	var b strings.Builder
	argi := 0
	for i := 0; i < len(f); i++ {
		if f[i] != '%' {
			b.WriteByte(f[i])
			continue
		}
		if i++; i >= len(f) {
			in.throw(in.line, "invalid option '%%' to 'format'")
		}
		if f[i] == '%' {
			b.WriteByte('%')
			continue
		}
		start := i
		for i < len(f) && strings.IndexByte("-+ #0", f[i]) >= 0 {
			i++
		}
		if i-start > 5 {
			in.throw(in.line, "invalid format (repeated flags)")
		}
		flags := f[start:i]
		width, prec, hasPrec := 0, 0, false
		for n := 0; i < len(f) && isDigit(f[i]) && n < 2; n++ {
			width = width*10 + int(f[i]-'0')
			i++
		}
		if i < len(f) && f[i] == '.' {
			hasPrec = true
			i++
			for n := 0; i < len(f) && isDigit(f[i]) && n < 2; n++ {
				prec = prec*10 + int(f[i]-'0')
				i++
			}
		}
		if i >= len(f) || isDigit(f[i]) {
			in.throw(in.line, "invalid format (width or precision too long)")
		}
		spec := "%" + flags
		if width > 0 {
			spec += strconv.Itoa(width)
		}
		argi++
		switch conv := f[i]; conv {
		case 'd', 'i':
			if hasPrec {
				spec += "." + strconv.Itoa(prec)
			}
			fmt.Fprintf(&b, spec+"d", int64(in.argInt(args, argi, "format")))
		case 'u', 'x', 'X', 'o':
			if hasPrec {
				spec += "." + strconv.Itoa(prec)
			}
			if conv == 'u' {
				conv = 'd'
			}
			fmt.Fprintf(&b, spec+string(conv), uint64(int64(in.argInt(args, argi, "format"))))
		case 'c':
			b.WriteByte(byte(in.argInt(args, argi, "format")))
		case 'e', 'E', 'f', 'g', 'G':
			n := in.argNumber(args, argi, "format")
			if math.IsInf(n, 0) || n != n {
				unsupported("string.format of %v", n)
			}
			if !hasPrec {
				prec = 6
			}
			fmt.Fprintf(&b, spec+"."+strconv.Itoa(prec)+string(conv), n)
		case 's':
			s := in.argString(args, argi, "format")
			if hasPrec && prec < len(s) {
				s = s[:prec]
			}
			pad := ""
			if width > len(s) {
				pad = strings.Repeat(" ", width-len(s))
			}
			if strings.Contains(flags, "-") {
				b.WriteString(s + pad)
			} else {
				b.WriteString(pad + s)
			}
		case 'q':
			unsupported("string.format option %%q")
		default:
			in.throw(in.line, "invalid option '%%%c' to 'format'", conv)
		}
	}
	return one(b.String())
}

// ---------------------------------------------------------------------------------------------------------------
// redis

// errTable builds the error value of the redis library. Like Redis' luaPushError, messages generated by the library
// itself carry the generic "ERR" code; messages of failed commands come with their own code from the host.
func errTable(msg string) *Table {
	t := NewTable()
	t.Set("err", msg)
	return t
}

func replyTable(in *interp, args []Value, field, fname string) Value {
	if len(args) != 1 {
		return errTable("ERR wrong number or type of arguments")
	}
	s, ok := args[0].(string)
	if !ok {
		return errTable("ERR wrong number or type of arguments")
	}
	t := NewTable()
	t.Set(field, s)
	return t
}

// checkHostValue makes sure that the host only hands Lua values to the script.
func checkHostValue(v Value, seen map[*Table]bool) {
	typeName(v) // unsupported for anything that is not a Lua value
	if t, ok := v.(*Table); ok && !seen[t] {
		seen[t] = true
		for _, k := range t.Keys() {
			typeName(k)
			checkHostValue(t.Get(k), seen)
		}
	}
}

// redisCall implements redis.call (raise=true semantics when protected is false) and redis.pcall.
func redisCall(in *interp, args []Value, protected bool) []Value {
	var reply Value
	strs := make([]string, len(args))
	for i, a := range args {
		s, ok := ToRedisArg(a)
		if !ok {
			reply = errTable("ERR Lua redis lib command arguments must be strings or integers")
		}
		strs[i] = s
	}
	if len(args) == 0 {
		reply = errTable("ERR Please specify at least one argument for this redis lib call")
	}
	if reply == nil {
		if in.host == nil {
			unsupported("redis.call without a Host")
		}
		v, err := in.host.Call(strs)
		if err != nil {
			reply = errTable(err.Error())
		} else {
			checkHostValue(v, map[*Table]bool{})
			reply = v
		}
	}
	if t, ok := reply.(*Table); ok && !protected {
		if _, isErr := t.Get("err").(string); isErr {
			panic(&luaError{val: t}) // Redis 7 raises the error table itself
		}
	}
	return one(reply)
}

func redisSetresp(in *interp, args []Value) []Value {
	switch in.argNumber(args, 0, "setresp") {
	case 2:
	case 3:
		unsupported("redis.setresp(3): the host converts replies with RESP2 rules")
	default:
		in.throw(in.line, "RESP version must be 2 or 3.")
	}
	return nil
}

func redisSha1hex(in *interp, args []Value) []Value {
	if len(args) != 1 {
		in.throw(in.line, "wrong number of arguments")
	}
	sum := sha1.Sum([]byte(in.argString(args, 0, "sha1hex")))
	return one(hex.EncodeToString(sum[:]))
}
