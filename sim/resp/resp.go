// Package resp is an independent RESP2/RESP3 codec used by the simulated
// Redis servers. It shares no code with rueidis.
package resp

import (
	"errors"
	"fmt"
	"strconv"
	"strings"
)

// Value is a RESP reply tree.
type Value struct {
	T      byte    // '+' '-' ':' '$' '*' '%' '~' '>' '_' '#' ',' '(' '=' '!'
	S      string  // payload of string-like types ('+','-','$',',','(','=','!')
	I      int64   // payload of ':' ; for '#' 0/1
	A      []Value // elements ('*','~','>'), or k,v pairs flattened ('%')
	Null   bool    // RESP2-style null bulk / null array for '$' and '*'
	Attr   []Value // optional attribute pairs (k,v flattened) emitted before the value (RESP3 only)
	Stream bool    // encode '$' as streamed string or aggregates as streamed (RESP3 only)
}

func Simple(s string) Value { return Value{T: '+', S: s} }
func Err(s string) Value    { return Value{T: '-', S: s} }
func Int(i int64) Value     { return Value{T: ':', I: i} }
func Bulk(s string) Value   { return Value{T: '$', S: s} }
func Nil() Value            { return Value{T: '_'} }
func Arr(v ...Value) Value  { return Value{T: '*', A: v} }
func Map(v ...Value) Value  { return Value{T: '%', A: v} }
func Set(v ...Value) Value  { return Value{T: '~', A: v} }
func Push(v ...Value) Value { return Value{T: '>', A: v} }
func Bool(b bool) Value {
	if b {
		return Value{T: '#', I: 1}
	}
	return Value{T: '#'}
}
func Double(s string) Value   { return Value{T: ',', S: s} }
func BigNum(s string) Value   { return Value{T: '(', S: s} }
func Verbatim(s string) Value { return Value{T: '=', S: s} } // s includes "txt:" prefix
func BlobErr(s string) Value  { return Value{T: '!', S: s} }
func NullArr() Value          { return Value{T: '*', Null: true} }
func OK() Value               { return Simple("OK") }
func Strs(ss ...string) Value {
	v := Value{T: '*', A: make([]Value, len(ss))}
	for i, s := range ss {
		v.A[i] = Bulk(s)
	}
	return v
}

// IsErr reports whether v is an error reply.
func (v Value) IsErr() bool { return v.T == '-' || v.T == '!' }

// Encode appends the wire form of v for the given protocol version (2 or 3).
func Encode(dst []byte, v Value, proto int) []byte {
	if proto >= 3 && len(v.Attr) > 0 {
		dst = append(dst, '|')
		dst = strconv.AppendInt(dst, int64(len(v.Attr)/2), 10)
		dst = append(dst, '\r', '\n')
		for _, a := range v.Attr {
			dst = Encode(dst, a, proto)
		}
	}
	line := func(t byte, s string) {
		dst = append(dst, t)
		dst = append(dst, s...)
		dst = append(dst, '\r', '\n')
	}
	blob := func(t byte, s string) {
		dst = append(dst, t)
		dst = strconv.AppendInt(dst, int64(len(s)), 10)
		dst = append(dst, '\r', '\n')
		dst = append(dst, s...)
		dst = append(dst, '\r', '\n')
	}
	agg := func(t byte, n int, a []Value) {
		if proto >= 3 && v.Stream {
			dst = append(dst, t, '?', '\r', '\n')
			for _, e := range a {
				dst = Encode(dst, e, proto)
			}
			dst = append(dst, '.', '\r', '\n')
			return
		}
		dst = append(dst, t)
		dst = strconv.AppendInt(dst, int64(n), 10)
		dst = append(dst, '\r', '\n')
		for _, e := range a {
			dst = Encode(dst, e, proto)
		}
	}
	switch v.T {
	case '+', '-':
		line(v.T, v.S)
	case ':':
		line(':', strconv.FormatInt(v.I, 10))
	case '$':
		if v.Null {
			if proto >= 3 {
				line('_', "")
			} else {
				line('$', "-1")
			}
		} else if proto >= 3 && v.Stream {
			dst = append(dst, '$', '?', '\r', '\n')
			s := v.S
			for len(s) > 0 {
				n := len(s)
				if n > 7 {
					n = 7
				}
				dst = append(dst, ';')
				dst = strconv.AppendInt(dst, int64(n), 10)
				dst = append(dst, '\r', '\n')
				dst = append(dst, s[:n]...)
				dst = append(dst, '\r', '\n')
				s = s[n:]
			}
			dst = append(dst, ';', '0', '\r', '\n')
		} else {
			blob('$', v.S)
		}
	case '_':
		if proto >= 3 {
			line('_', "")
		} else {
			line('$', "-1")
		}
	case '*':
		if v.Null {
			if proto >= 3 {
				line('_', "")
			} else {
				line('*', "-1")
			}
		} else {
			agg('*', len(v.A), v.A)
		}
	case '~':
		if proto >= 3 {
			agg('~', len(v.A), v.A)
		} else {
			agg('*', len(v.A), v.A)
		}
	case '>':
		if proto >= 3 {
			agg('>', len(v.A), v.A)
		} else {
			agg('*', len(v.A), v.A)
		}
	case '%':
		if proto >= 3 {
			agg('%', len(v.A)/2, v.A)
		} else {
			agg('*', len(v.A), v.A)
		}
	case '#':
		if proto >= 3 {
			if v.I != 0 {
				line('#', "t")
			} else {
				line('#', "f")
			}
		} else {
			line(':', strconv.FormatInt(v.I, 10))
		}
	case ',':
		if proto >= 3 {
			line(',', v.S)
		} else {
			blob('$', v.S)
		}
	case '(':
		if proto >= 3 {
			line('(', v.S)
		} else {
			blob('$', v.S)
		}
	case '=':
		if proto >= 3 {
			blob('=', v.S)
		} else {
			s := v.S
			if len(s) >= 4 {
				s = s[4:]
			}
			blob('$', s)
		}
	case '!':
		if proto >= 3 {
			blob('!', v.S)
		} else {
			line('-', v.S)
		}
	default:
		panic(fmt.Sprintf("resp.Encode: unknown type %q", v.T))
	}
	return dst
}

// ErrIncomplete means more bytes are needed.
var ErrIncomplete = errors.New("resp: incomplete")

// ParseCommand parses one client command (an array of bulk strings) from buf.
// It returns the argv and the number of bytes consumed. Anything that is not
// an array of bulk strings is a protocol violation (err != ErrIncomplete).
func ParseCommand(buf []byte) (argv []string, n int, err error) {
	if len(buf) == 0 {
		return nil, 0, ErrIncomplete
	}
	if buf[0] != '*' {
		return nil, 0, fmt.Errorf("resp: command does not start with '*' but %q", buf[0])
	}
	cnt, p, err := parseLen(buf, 1)
	if err != nil {
		return nil, 0, err
	}
	if cnt <= 0 {
		return nil, 0, fmt.Errorf("resp: command array length %d", cnt)
	}
	argv = make([]string, 0, cnt)
	for i := int64(0); i < cnt; i++ {
		if p >= len(buf) {
			return nil, 0, ErrIncomplete
		}
		if buf[p] != '$' {
			return nil, 0, fmt.Errorf("resp: command argument %d is not a bulk string but %q", i, buf[p])
		}
		l, q, err := parseLen(buf, p+1)
		if err != nil {
			return nil, 0, err
		}
		if l < 0 {
			return nil, 0, fmt.Errorf("resp: negative bulk length %d", l)
		}
		if int64(len(buf)-q) < l+2 {
			return nil, 0, ErrIncomplete
		}
		if buf[q+int(l)] != '\r' || buf[q+int(l)+1] != '\n' {
			return nil, 0, fmt.Errorf("resp: bulk string of length %d not terminated by CRLF", l)
		}
		argv = append(argv, string(buf[q:q+int(l)]))
		p = q + int(l) + 2
	}
	return argv, p, nil
}

// parseLen parses a decimal integer terminated by CRLF starting at buf[p].
func parseLen(buf []byte, p int) (v int64, next int, err error) {
	i := p
	for i < len(buf) && buf[i] != '\r' {
		i++
	}
	if i+1 >= len(buf) {
		return 0, 0, ErrIncomplete
	}
	if buf[i+1] != '\n' {
		return 0, 0, errors.New("resp: CR not followed by LF in length")
	}
	s := string(buf[p:i])
	// strict canonical decimal: optional '-', no leading zeros (except "0"), no '+'
	if s == "" || s == "-" {
		return 0, 0, fmt.Errorf("resp: empty length %q", s)
	}
	d := s
	if d[0] == '-' {
		d = d[1:]
	}
	if len(d) > 1 && d[0] == '0' {
		return 0, 0, fmt.Errorf("resp: non-canonical length %q", s)
	}
	for _, c := range d {
		if c < '0' || c > '9' {
			return 0, 0, fmt.Errorf("resp: bad length %q", s)
		}
	}
	v, err = strconv.ParseInt(s, 10, 64)
	if err != nil {
		return 0, 0, err
	}
	return v, i + 2, nil
}

// ParseValue parses one reply value (used by the stream validator and tests).
func ParseValue(buf []byte) (v Value, n int, err error) {
	return parseValue(buf, 0, 0)
}

func parseValue(buf []byte, p, depth int) (v Value, n int, err error) {
	if depth > 64 {
		return v, 0, errors.New("resp: too deep")
	}
	if p >= len(buf) {
		return v, 0, ErrIncomplete
	}
	t := buf[p]
	readLine := func(p int) (string, int, error) {
		i := p
		for i < len(buf) && buf[i] != '\r' {
			i++
		}
		if i+1 >= len(buf) {
			return "", 0, ErrIncomplete
		}
		if buf[i+1] != '\n' {
			return "", 0, errors.New("resp: CR not followed by LF")
		}
		return string(buf[p:i]), i + 2, nil
	}
	switch t {
	case '|':
		cnt, q, err := parseLen(buf, p+1)
		if err != nil {
			return v, 0, err
		}
		var attr []Value
		for i := int64(0); i < cnt*2; i++ {
			var e Value
			if e, q, err = parseValue(buf, q, depth+1); err != nil {
				return v, 0, err
			}
			attr = append(attr, e)
		}
		v, q, err = parseValue(buf, q, depth+1)
		if err != nil {
			return v, 0, err
		}
		v.Attr = attr
		return v, q, nil
	case '+', '-', ',', '(':
		s, q, err := readLine(p + 1)
		if err != nil {
			return v, 0, err
		}
		return Value{T: t, S: s}, q, nil
	case ':':
		i, q, err := parseLen(buf, p+1)
		if err != nil {
			return v, 0, err
		}
		return Value{T: ':', I: i}, q, nil
	case '#':
		s, q, err := readLine(p + 1)
		if err != nil {
			return v, 0, err
		}
		if s == "t" {
			return Value{T: '#', I: 1}, q, nil
		} else if s == "f" {
			return Value{T: '#'}, q, nil
		}
		return v, 0, fmt.Errorf("resp: bad bool %q", s)
	case '_':
		s, q, err := readLine(p + 1)
		if err != nil {
			return v, 0, err
		}
		if s != "" {
			return v, 0, errors.New("resp: bad null")
		}
		return Value{T: '_'}, q, nil
	case '$', '=', '!':
		if p+1 < len(buf) && buf[p+1] == '?' {
			_, q, err := readLine(p + 1)
			if err != nil {
				return v, 0, err
			}
			var sb strings.Builder
			for {
				if q >= len(buf) {
					return v, 0, ErrIncomplete
				}
				if buf[q] != ';' {
					return v, 0, errors.New("resp: bad chunk")
				}
				l, r, err := parseLen(buf, q+1)
				if err != nil {
					return v, 0, err
				}
				if l == 0 {
					return Value{T: t, S: sb.String(), Stream: true}, r, nil
				}
				if int64(len(buf)-r) < l+2 {
					return v, 0, ErrIncomplete
				}
				sb.Write(buf[r : r+int(l)])
				q = r + int(l) + 2
			}
		}
		l, q, err := parseLen(buf, p+1)
		if err != nil {
			return v, 0, err
		}
		if l == -1 && t == '$' {
			return Value{T: '$', Null: true}, q, nil
		}
		if l < 0 {
			return v, 0, errors.New("resp: negative blob length")
		}
		if int64(len(buf)-q) < l+2 {
			return v, 0, ErrIncomplete
		}
		if buf[q+int(l)] != '\r' || buf[q+int(l)+1] != '\n' {
			return v, 0, errors.New("resp: blob not terminated")
		}
		return Value{T: t, S: string(buf[q : q+int(l)])}, q + int(l) + 2, nil
	case '*', '~', '>', '%':
		if p+1 < len(buf) && buf[p+1] == '?' {
			_, q, err := readLine(p + 1)
			if err != nil {
				return v, 0, err
			}
			out := Value{T: t, Stream: true}
			for {
				if q >= len(buf) {
					return v, 0, ErrIncomplete
				}
				if buf[q] == '.' {
					_, r, err := readLine(q + 1)
					if err != nil {
						return v, 0, err
					}
					return out, r, nil
				}
				var e Value
				if e, q, err = parseValue(buf, q, depth+1); err != nil {
					return v, 0, err
				}
				out.A = append(out.A, e)
			}
		}
		cnt, q, err := parseLen(buf, p+1)
		if err != nil {
			return v, 0, err
		}
		if cnt == -1 && t == '*' {
			return Value{T: '*', Null: true}, q, nil
		}
		if cnt < 0 {
			return v, 0, errors.New("resp: negative aggregate length")
		}
		if t == '%' {
			cnt *= 2
		}
		out := Value{T: t}
		for i := int64(0); i < cnt; i++ {
			var e Value
			if e, q, err = parseValue(buf, q, depth+1); err != nil {
				return v, 0, err
			}
			out.A = append(out.A, e)
		}
		return out, q, nil
	}
	return v, 0, fmt.Errorf("resp: unknown type byte %q", t)
}

// String renders a value compactly for logs.
func (v Value) String() string {
	var sb strings.Builder
	v.write(&sb)
	return sb.String()
}

func (v Value) write(sb *strings.Builder) {
	switch v.T {
	case '+', '-', ',', '(', '=', '!':
		sb.WriteByte(v.T)
		sb.WriteString(strconv.Quote(v.S))
	case '$':
		if v.Null {
			sb.WriteString("nil")
		} else {
			sb.WriteString(strconv.Quote(v.S))
		}
	case ':':
		sb.WriteByte(':')
		sb.WriteString(strconv.FormatInt(v.I, 10))
	case '#':
		if v.I != 0 {
			sb.WriteString("#t")
		} else {
			sb.WriteString("#f")
		}
	case '_':
		sb.WriteString("nil")
	case '*', '~', '>', '%':
		if v.Null {
			sb.WriteString("nil*")
			return
		}
		sb.WriteByte(v.T)
		sb.WriteByte('[')
		for i, e := range v.A {
			if i > 0 {
				sb.WriteByte(' ')
			}
			e.write(sb)
		}
		sb.WriteByte(']')
	default:
		sb.WriteString("?")
	}
}
