#!/bin/bash
# usage: seeded_eval.sh <seeded-id> confirm|check [props...]
# confirm: in a scratch worktree, the demonstration fails with the patch and passes without it
# check:   apply the patch to /repo, run the quick checks of the given properties, revert
ID=$1; MODE=$2; shift 2
D=/verif/seeded/$ID
DEMO_PATH=$(python3 -c "import json;print(json.load(open('$D/meta.json')).get('demo_path','zz_seeded_demo_test.go'))")
DEMO_CMD=$(python3 -c "import json;print(json.load(open('$D/meta.json')).get('demo_cmd',''))")
if [ "$MODE" = confirm ]; then
  WT=/tmp/confirm-$ID
  git -C /repo worktree remove --force $WT 2>/dev/null
  git -C /repo worktree add -q --detach $WT HEAD || exit 2
  cp $D/demo_test.go $WT/$DEMO_PATH
  RUN=$(echo "$DEMO_CMD" | sed "s#/tmp/wt-[A-Za-z0-9-]*#$WT#g")
  echo "== without patch"; (eval "$RUN") 2>&1 | tail -3
  (cd $WT && git apply $D/patch.diff) || { echo "PATCH DOES NOT APPLY"; git -C /repo worktree remove --force $WT; exit 2; }
  echo "== with patch"; (eval "$RUN") 2>&1 | tail -5
  git -C /repo worktree remove --force $WT
else
  git -C /repo apply $D/patch.diff || { echo "PATCH DOES NOT APPLY"; exit 2; }
  for p in "$@"; do echo "== $p"; (cd /verif && timeout 1200 python3 vcheck.py run $p --tier quick 2>&1 | grep -v "^  rule\|^WARNING" | cut -c1-300 | tail -4); done
  git -C /repo checkout -- . ; git -C /repo status --short | head -3
fi
