#!/bin/bash
# usage: seeded_eval2.sh <seeded-id> <prop> [<prop>...]
# Evaluates a seeded change WITHOUT touching /repo or /verif/build: the patch is applied to a scratch worktree of /repo's
# HEAD, the checks run from a scratch clone of /verif's HEAD with VERIF_REPO pointing at that worktree.
ID=$1; shift
D=/verif/seeded/$ID
WT=/tmp/ev-$ID-repo; VV=/tmp/ev-$ID-verif
git -C /repo worktree remove --force $WT 2>/dev/null; rm -rf $VV
git -C /repo worktree add -q --detach $WT HEAD || exit 2
(cd $WT && git apply $D/patch.diff) || { echo "PATCH DOES NOT APPLY"; git -C /repo worktree remove --force $WT; exit 2; }
git clone -q /verif $VV || exit 2
for p in "$@"; do echo "== $ID vs $p"; (cd $VV && VERIF_REPO=$WT timeout 2400 python3 vcheck.py run $p --tier quick 2>&1 | grep -v "^  rule\|^WARNING" | cut -c1-400 | tail -5); done
git -C /repo worktree remove --force $WT; rm -rf $VV
