#!/bin/bash
# usage: thorough_sweep.sh <id> [<id>...]   runs the thorough tier of the given checks one after another (development
# aid for `vp run`; evidence is only ever taken from runs in /verif itself)
cd "$(dirname "$0")"
python3 vcheck.py build > /dev/null 2>&1
for id in "$@"; do
  s=$(date +%s)
  python3 vcheck.py run $id --tier thorough > thorough_$id.log 2>&1
  echo "$id rc=$? $(( $(date +%s) - s ))s $(grep -c '^KNOWN-FINDING' thorough_$id.log) known $(grep -c '^VIOLATION' thorough_$id.log) viol; $(tail -1 thorough_$id.log | cut -c1-160)"
done
