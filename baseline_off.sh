#!/bin/bash
# Runs the repository's pinned test suite with the verif guard OFF (no -tags verif) and compares the
# result with the stable-pass list of /root/.vp/BASELINE.json. Exit 0 iff every stable test passed.
set -u
LOG=$(mktemp /tmp/verif-baseline-XXXX.json)
for m in $(cat /w/out/gomods.txt); do
  MF=$(cd /repo/$m && . /w/out/goenv.sh && gomodflag)
  (cd /repo/$m && go test $MF -json -vet=off -count=1 -timeout 25m ./...) >> "$LOG" 2>/dev/null
done
python3 - "$LOG" <<'PY'
import json,sys
passed,failed=set(),set()
for line in open(sys.argv[1],errors='replace'):
    line=line.strip()
    if not line.startswith('{'): continue
    try: ev=json.loads(line)
    except Exception: continue
    a=ev.get('Action'); t=ev.get('Test')
    if t is None or a not in ('pass','fail'): continue
    (passed if a=='pass' else failed).add(ev.get('Package','')+'::'+t)
passed-=failed
stable=set(json.load(open('/root/.vp/BASELINE.json'))['stable_pass'])
missing=sorted(stable-passed)
print('stable tests: %d, passed now: %d, stable-but-not-passed: %d'%(len(stable),len(stable&passed),len(missing)))
for m in missing[:30]: print('  NOT PASSED:',m)
sys.exit(0 if not missing else 1)
PY
rc=$?
rm -f "$LOG"
exit $rc
