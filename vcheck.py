#!/usr/bin/env python3
"""vcheck - driver of the deterministic-simulation checks for redis/rueidis.

  vcheck.py run <Cxx> [--tier quick|thorough]   run the registered check of a property
  vcheck.py replay <file>                       re-execute a replay file; exit 1 if it reproduces the violation
  vcheck.py selftest determinism [scenario...]  same seeds, several processes and GOMAXPROCS values, compare log hashes
  vcheck.py build [module...]                   (re)build the harness test binaries from /repo's working tree

Exit codes: 0 property held on everything explored (KNOWN-FINDING lines may be printed);
            1 at least one violation not listed in known_findings.json (VIOLATION lines printed);
            2 infrastructure trouble (build, watchdog, model gap, replay divergence) - never a VIOLATION line.
"""
import glob
import hashlib
import json
import os
import re
import shutil
import subprocess
import sys
import tempfile
import time
from concurrent.futures import ThreadPoolExecutor

VERIF = os.path.dirname(os.path.abspath(__file__))
REPO = os.environ.get("VERIF_REPO", "/repo")  # development only: checks are registered without it and build /repo
BUILD = os.path.join(VERIF, "build")
BIN = os.path.join(BUILD, "bin")
TMP = os.path.join(BUILD, "tmp")
NCPU = int(os.environ.get("VERIF_JOBS", str(os.cpu_count() or 4)))

sys.path.insert(0, VERIF)
from checks import CHECKS, MODULES  # noqa: E402


def goenv():
    env = dict(os.environ)
    env.update({"GOFLAGS": "-mod=mod", "GOPROXY": "off", "GOSUMDB": "off", "GOTOOLCHAIN": "local",
                "GONOSUMDB": "*", "GONOSUMCHECK": "1"})
    g125 = "/root/go/pkg/mod/golang.org/toolchain@v0.0.1-go1.25.0.linux-amd64/bin/go"
    if os.path.exists(g125):
        go = g125
    else:
        go = shutil.which("go1.26.8") or "go"
    return env, go


def infra(msg):
    print("INFRA-ERROR: " + msg, flush=True)
    sys.exit(2)


def build_module(mod):
    """Builds build/bin/<mod>.test from /repo's current working tree with the harness overlaid."""
    spec = MODULES[mod]
    env, go = goenv()
    os.makedirs(BIN, exist_ok=True)
    os.makedirs(TMP, exist_ok=True)
    moddir = os.path.join(REPO, spec["dir"])
    modfile = os.path.join(BUILD, mod + ".mod")
    shutil.copy(os.path.join(moddir, "go.mod"), modfile)
    sumsrc = os.path.join(moddir, "go.sum")
    if os.path.exists(sumsrc):
        shutil.copy(sumsrc, os.path.join(BUILD, mod + ".sum"))
    with open(modfile, "a") as f:
        f.write("\nrequire verifsim v0.0.0\nreplace verifsim => %s\n" % os.environ.get("VERIF_SIM_DIR", VERIF + "/sim"))
        for extra in spec.get("extra_mod", []):
            f.write(extra + "\n")
    # go.mod replace directives with relative paths are relative to the modfile's directory: make them absolute
    txt = open(modfile).read()
    txt = re.sub(r"=>\s+\.\./", "=> " + os.path.normpath(os.path.join(moddir, "..")) + "/", txt)
    txt = re.sub(r"=>\s+\.\.(\s|$)", "=> " + os.path.normpath(os.path.join(moddir, "..")) + r"\1", txt)
    open(modfile, "w").write(txt)
    rep = {}
    for f in sorted(glob.glob(os.path.join(VERIF, "harness", spec["harness"], "*.go"))):
        rep[os.path.join(moddir, spec.get("pkgdir", ""), "zzverif_" + os.path.basename(f))] = f
    if mod != "rueidis":
        # add-on modules import rueidis from /repo: give that package the simulator glue (non-test file), and give
        # the add-on package the shared driver with its package clause rewritten
        rep[os.path.join(REPO, "zzverif_vglue.go")] = os.path.join(VERIF, "harness", "rueidis", "vglue.go")
        srcs = sorted(glob.glob(os.path.join(VERIF, "harness", "common", "*.go"))) + [os.path.join(VERIF, "harness", "rueidis", "main_test.go")]
        for f in srcs:
            gen = os.path.join(BUILD, mod + "_" + os.path.basename(f))
            txt = open(f).read().replace("package PKGNAME", "package " + spec["package"])
            if f.endswith("/rueidis/main_test.go"):
                # the driver of package rueidis, re-targeted: same flags, same output format
                txt = txt.replace("package rueidis", "package " + spec["package"], 1)
                txt = txt.replace("\tinstallHooks()\n", "\trueidis.VerifInstallHooks()\n")
                txt = txt.replace("\tcurSim.Store(nil)\n", "\trueidis.VerifSetSim(nil, 0)\n")
                txt = txt.replace('import (\n', 'import (\n\t"github.com/redis/rueidis"\n', 1)
                if "rueidis.VerifInstallHooks" not in txt or "rueidis.VerifSetSim" not in txt:
                    infra("could not re-target the driver for " + mod)
            open(gen, "w").write(txt)
            rep[os.path.join(moddir, spec.get("pkgdir", ""), "zzverif_common_" + os.path.basename(f))] = gen
    overlay = os.path.join(BUILD, mod + ".overlay")
    json.dump({"Replace": rep}, open(overlay, "w"))
    out = os.path.join(BIN, mod + ".test")
    cmd = [go, "test", "-tags", "verif", "-vet=off", "-modfile=" + modfile, "-overlay=" + overlay, "-c", "-o", out,
           "./" + spec.get("pkgdir", "")]
    t0 = time.time()
    p = subprocess.run(cmd, cwd=moddir, env=env, capture_output=True, text=True)
    if p.returncode != 0:
        infra("build of %s failed:\n%s\n%s" % (mod, p.stdout[-4000:], p.stderr[-4000:]))
    return out, time.time() - t0


VLIMIT_KB = 16 * 1024 * 1024  # address-space limit of every child: a runaway allocation kills the child, not the sandbox


def _limit():
    import resource
    try:
        resource.setrlimit(resource.RLIMIT_AS, (VLIMIT_KB * 1024, VLIMIT_KB * 1024))
    except Exception:
        pass


def _crash_text(stderr):
    """The part of a child's stderr that says why it died: from the first panic / fatal-error line on (a stack
    overflow is followed by a dump far longer than any tail), plus the tail."""
    m = re.search(r"^(panic: |fatal error: |runtime: goroutine stack exceeds)", stderr, re.M)
    if m and m.start() < len(stderr) - 12000:
        return stderr[m.start():m.start() + 9000] + "\n...\n" + stderr[-6000:]
    return stderr[-12000:]


def run_child(binary, scenario, seed0, runs, tier, procs, outfile, variant="", plan=None, tape=False, timeout=600):
    cmd = [binary, "-test.run", "^TestVerif$", "-test.timeout", "0", "-verif.scenario", scenario,
           "-verif.seed0", str(seed0), "-verif.runs", str(runs), "-verif.tier", tier, "-verif.out", outfile,
           "-verif.procs", str(procs)]
    if variant:
        cmd += ["-verif.variant", variant]
    if plan:
        cmd += ["-verif.plan", plan]
    if tape:
        cmd += ["-verif.tape"]
    try:
        p = subprocess.run(cmd, capture_output=True, text=True, timeout=timeout, cwd=TMP, preexec_fn=_limit)
        return p.returncode, p.stdout[-6000:] + _crash_text(p.stderr), False
    except subprocess.TimeoutExpired as e:
        so = (e.stdout or b"")
        se = (e.stderr or b"")
        if isinstance(so, bytes):
            so = so.decode("utf8", "replace")
        if isinstance(se, bytes):
            se = se.decode("utf8", "replace")
        return -9, so[-3000:] + se[-6000:], True


def parse_out(path):
    """Returns (outcomes by seed, seed in progress when the child died or None)."""
    outs, begun = {}, None
    if not os.path.exists(path):
        return outs, None
    for line in open(path, errors="replace"):
        line = line.strip()
        if not line.startswith("{"):
            continue
        try:
            j = json.loads(line)
        except Exception:
            continue
        if j.get("ev") == "begin":
            begun = j["seed"]
        elif j.get("ev") == "end":
            outs[j["seed"]] = j["out"]
            begun = None
    return outs, begun


RUEIDIS_FRAME = re.compile(r"^github\.com/redis/rueidis[\w/]*\.\(?[\w\*\.\[\]]+", re.M)


def classify_crash(text):
    """A panic raised in rueidis code (not in the harness, not in the simulator) is attributed to the library."""
    m = re.search(r"^(panic: .*|fatal error: .*)$", text, re.M)
    if not m:
        return None, None
    msg = m.group(1)
    # first goroutine trace after the panic line
    tail = text[m.end():]
    frames = re.findall(r"^([\w\./\-\(\)\*\[\]]+)\(.*\)\n\t(/[^\s:]+):\d+", tail, re.M)
    for fn, file in frames:
        if file.startswith(REPO.rstrip("/") + "/") and "zzverif_" not in file and not file.endswith("_test.go"):
            return "library", msg
        if "zzverif_" in file or file.startswith(VERIF):
            return "harness", msg
    return "unknown", msg


def shard(total, jobs):
    per = max(1, (total + jobs - 1) // jobs)
    out, s = [], 0
    while s < total:
        n = min(per, total - s)
        out.append((s, n))
        s += n
    return out


class Batch:
    """Runs seeds [seed0, seed0+runs) of one scenario across child processes, restarting after crashes."""

    def __init__(self, binary, scenario, tier, variant="", procs_mix=(1, 2, 4), timeout=900):
        self.binary, self.scenario, self.tier, self.variant = binary, scenario, tier, variant
        self.procs_mix, self.timeout = procs_mix, timeout
        self.outcomes = {}
        self.crashes = []  # (seed, kind, msg, text)
        self.watchdogs = []
        self.retried = set()
        self.transient_watchdogs = 0

    def _one(self, idx, seed0, runs):
        procs = self.procs_mix[idx % len(self.procs_mix)]
        done = 0
        while done < runs:
            outfile = os.path.join(TMP, "out-%s-%d-%d.jsonl" % (self.scenario, os.getpid(), seed0 + done))
            if os.path.exists(outfile):
                os.remove(outfile)
            rc, text, timed_out = run_child(self.binary, self.scenario, seed0 + done, runs - done, self.tier, procs,
                                            outfile, self.variant, timeout=self.timeout)
            outs, begun = parse_out(outfile)
            try:
                os.remove(outfile)
            except OSError:
                pass
            self.outcomes.update(outs)
            if begun is None:
                if len(outs) < runs - done and rc != 0:
                    self.crashes.append((seed0 + done + len(outs), "unknown", "child exited rc=%d without result" % rc, text))
                    return
                done += len(outs)
                if len(outs) == 0:
                    return
                continue
            # the child died or hung during seed `begun`
            if timed_out:
                # a real-time stall that does not repeat on the same seed is counted, not reported
                if begun not in self.retried:
                    self.retried.add(begun)
                    self.transient_watchdogs += 1
                    done = begun - seed0
                    continue
                self.watchdogs.append((begun, text))
            else:
                kind, msg = classify_crash(text)
                self.crashes.append((begun, kind or "unknown", msg or "child died rc=%d" % rc, text))
            done = begun - seed0 + 1

    def run(self, seed0, runs, jobs=NCPU):
        parts = shard(runs, jobs)
        with ThreadPoolExecutor(max_workers=jobs) as ex:
            futs = [ex.submit(self._one, i, seed0 + s, n) for i, (s, n) in enumerate(parts)]
            for f in futs:
                f.result()


def load_known():
    p = os.path.join(VERIF, "known_findings.json")
    if not os.path.exists(p):
        return []
    return json.load(open(p)).get("findings", [])


def match_known(known, prop, viol, outcome):
    for k in known:
        if k.get("status") != "known" or k.get("property") != prop:
            continue
        m = k.get("match", {})
        if m.get("rule") and m["rule"] != viol.get("rule"):
            continue
        if m.get("scenario") and m["scenario"] != outcome.get("scenario"):
            continue
        if m.get("detail_regex") and not re.search(m["detail_regex"], viol.get("detail", "")):
            continue
        if m.get("config_regex") and not re.search(m["config_regex"], outcome.get("config", "")):
            continue
        return k
    return None


# ---------------------------------------------------------------------------- minimisation

ARRAY_PATHS = [("tasks",), ("ghosts",), ("faults",)]


def plan_candidates(plan):
    """Yields smaller variants of a plan: drop a task, drop a call, drop a ghost op or a fault, shrink batches."""
    import copy
    tasks = plan.get("tasks") or []
    for i in range(len(tasks)):
        if len(tasks) > 1:
            p = copy.deepcopy(plan)
            del p["tasks"][i]
            yield "drop task %d" % i, p
    for key in ("faults", "ghosts"):
        arr = plan.get(key) or []
        for i in range(len(arr)):
            p = copy.deepcopy(plan)
            del p[key][i]
            yield "drop %s %d" % (key, i), p
    for i, calls in enumerate(tasks):
        for j in range(len(calls) - 1, -1, -1):
            if len(calls) > 1:
                p = copy.deepcopy(plan)
                del p["tasks"][i][j]
                yield "drop call %d.%d" % (i, j), p
    for i, calls in enumerate(tasks):
        for j, c in enumerate(calls):
            if not isinstance(c, dict):
                continue
            cmds = c.get("cmds") or []
            if len(cmds) > 1:
                for k in range(len(cmds)):
                    p = copy.deepcopy(plan)
                    del p["tasks"][i][j]["cmds"][k]
                    yield "drop cmd %d.%d.%d" % (i, j, k), p


def run_plan(binary, scenario, seed, plan, tape=False, timeout=120):
    pf = tempfile.NamedTemporaryFile("w", suffix=".json", dir=TMP, delete=False)
    json.dump({"seed": seed, "plan": plan}, pf)
    pf.close()
    outfile = pf.name + ".out"
    rc, text, timed_out = run_child(binary, scenario, seed, 1, "quick", 2, outfile, plan=pf.name, tape=tape, timeout=timeout)
    outs, begun = parse_out(outfile)
    for f in (pf.name, outfile):
        try:
            os.remove(f)
        except OSError:
            pass
    if seed in outs:
        return outs[seed], None
    kind, msg = classify_crash(text)
    return None, (kind, msg, text, timed_out)


def same_violation(out, crash, prop, rule):
    if rule == "panic-in-library":
        return crash is not None and crash[0] == "library"
    if out is None:
        return False
    return any(v["prop"] == prop and v["rule"] == rule for v in out.get("violations") or [])


def minimise(binary, scenario, seed, plan, prop, rule, budget=250):
    """Greedy delta debugging on the plan with the schedule seed fixed."""
    tries = 0
    improved = True
    while improved and tries < budget:
        improved = False
        for what, cand in plan_candidates(plan):
            tries += 1
            if tries > budget:
                break
            out, crash = run_plan(binary, scenario, seed, cand)
            if same_violation(out, crash, prop, rule):
                plan = cand
                improved = True
                break
    return plan, tries


def write_replay(prop, scenario, module, seed, plan, viol, loghash, minimised_from=None):
    d = os.path.join(VERIF, "replays")
    os.makedirs(d, exist_ok=True)
    path = os.path.join(d, "%s-%s-%d.json" % (prop, scenario, seed))
    json.dump({"property": prop, "scenario": scenario, "module": module, "seed": seed, "plan": plan,
               "violation": viol, "log_hash": loghash, "minimised_from": minimised_from}, open(path, "w"), indent=1)
    return path


# ---------------------------------------------------------------------------- run a check

def run_check(prop, tier):
    if prop not in CHECKS:
        infra("no check registered for " + prop)
    chk = CHECKS[prop]
    t0 = time.time()
    seedbase = int(os.environ.get("VERIF_SEED", "1"))
    os.makedirs(TMP, exist_ok=True)
    known = load_known()
    built = {}
    build_s = 0.0
    for part in chk["parts"]:
        mod = part["module"]
        if mod not in built:
            built[mod], dt = build_module(mod)
            build_s += dt
    total_runs = 0
    hashes = set()
    nontrivial_hashes = set()
    stats, probes, judged, not_judged, configs = {}, {}, {}, {}, {}
    fake_ms = 0
    steps = 0
    samples = []
    violations = []  # (part, seed, outcome, viol)
    harness_errs = []
    crashes = []
    watchdogs = []
    transient_watchdogs = 0
    gaps = []
    parts_summary = []
    for pi, part in enumerate(chk["parts"]):
        runs = part["quick"] if tier == "quick" else part.get("thorough", part["quick"] * 20)
        seed0 = (seedbase * 1000003 + pi * 7919) % (1 << 40) * 1000 + 1
        b = Batch(built[part["module"]], part["scenario"], tier, part.get("variant", ""),
                  tuple(part.get("procs", (1, 2, 4))), timeout=part.get("timeout", 90 if tier == "quick" else 7200))
        tp = time.time()
        b.run(seed0, runs)
        parts_summary.append({"scenario": part["scenario"], "runs_requested": runs, "runs_completed": len(b.outcomes),
                              "first_seed": seed0, "wall_s": round(time.time() - tp, 2)})
        for seed, o in sorted(b.outcomes.items()):
            total_runs += 1
            hashes.add(o["log_hash"])
            if o.get("nontrivial"):
                nontrivial_hashes.add(o["log_hash"])
            fake_ms += o.get("fake_ms", 0)
            steps += o.get("steps", 0)
            for k, v in (o.get("stats") or {}).items():
                stats[k] = stats.get(k, 0) + v
            for k, v in (o.get("probes") or {}).items():
                probes[k] = probes.get(k, 0) + 1
            for k, v in (o.get("judged") or {}).items():
                judged[k] = judged.get(k, 0) + v
            for k, v in (o.get("not_judged") or {}).items():
                not_judged[k] = not_judged.get(k, 0) + v
            configs[o.get("config", "")] = configs.get(o.get("config", ""), 0) + 1
            if o.get("harness_err"):
                harness_errs.append((part, seed, o["harness_err"]))
            for g in o.get("gaps") or []:
                gaps.append(g)
            for v in o.get("violations") or []:
                if v["prop"] == prop:
                    violations.append((part, seed, o, v))
        for seed, kind, msg, text in b.crashes:
            crashes.append((part, seed, kind, msg, text))
        for seed, text in b.watchdogs:
            watchdogs.append((part, seed, text))
        transient_watchdogs += b.transient_watchdogs
        # two samples per part: re-run the first seeds with plan output
        if len(samples) < 4:
            sseed = seed0
            out, crash = None, None
            pf = os.path.join(TMP, "sample-%d.jsonl" % os.getpid())
            if os.path.exists(pf):
                os.remove(pf)
            run_child(built[part["module"]], part["scenario"], sseed, 1, tier, 2, pf, part.get("variant", ""), tape=True, timeout=120)
            outs, _ = parse_out(pf)
            try:
                os.remove(pf)
            except OSError:
                pass
            if sseed in outs:
                o = outs[sseed]
                tape = o.get("tape") or []
                samples.append({"scenario": part["scenario"], "seed": sseed, "config": o.get("config"),
                                "plan": o.get("plan"), "steps": o.get("steps"), "tape_head": tape[:40],
                                "tape_len": len(tape), "log_hash": o.get("log_hash")})

    exit_code = 0
    lines = []
    # infrastructure trouble first
    infra_msgs = []
    for part, seed, he in harness_errs[:5]:
        infra_msgs.append("harness error in %s seed %d: %s" % (part["scenario"], seed, he[:800]))
    for part, seed, text in watchdogs[:5]:
        infra_msgs.append("watchdog: %s seed %d did not finish in real time\n%s" % (part["scenario"], seed, text[-1500:]))
    lib_crashes = [c for c in crashes if c[2] == "library"]
    for part, seed, kind, msg, text in crashes:
        if kind != "library":
            infra_msgs.append("child crashed (%s) in %s seed %d: %s\n%s" % (kind, part["scenario"], seed, msg, text[-2500:]))

    reported = []
    known_hits = {}
    seen_rules = {}
    # library panics are violations of the property under check (rule panic-in-library)
    for part, seed, kind, msg, text in lib_crashes:
        violations.append((part, seed, {"scenario": part["scenario"], "config": "", "log_hash": "", "crash": text[-3000:]},
                           {"prop": prop, "rule": "panic-in-library", "detail": msg}))
    for part, seed, o, v in violations:
        k = match_known(known, prop, v, o)
        if k is not None:
            known_hits.setdefault(k["id"], (k, seed, v))
            continue
        key = (part["scenario"], v["rule"])
        seen_rules.setdefault(key, []).append((part, seed, o, v))
    # A rule is reported with the first of its runs whose (minimised) plan reproduces it when replayed; runs whose
    # replay does not reproduce (state outside the simulator's reach, e.g. sync.Pool reuse) are tried in turn, up to
    # five, and only if none reproduces is the rule downgraded to an infrastructure error.
    work = []
    for key, items in seen_rules.items():
        for k, it in enumerate(items[:5]):
            work.append((key, items, it, k == min(len(items), 5) - 1))
    done_rules = set()
    for key, items, item, last_try in work:
        if key in done_rules:
            continue
        part, seed, o, v = item
        binary = built[part["module"]]
        plan = o.get("plan")
        mfrom = None
        if plan is None and v["rule"] != "panic-in-library":
            # re-run to obtain the plan
            o2, crash = None, None
            pf = os.path.join(TMP, "re-%d.jsonl" % os.getpid())
            if os.path.exists(pf):
                os.remove(pf)
            run_child(binary, part["scenario"], seed, 1, tier, 2, pf, part.get("variant", ""), tape=True, timeout=300)
            outs, _ = parse_out(pf)
            if seed in outs:
                plan = outs[seed].get("plan")
        if plan is None and v["rule"] == "panic-in-library":
            # obtain the plan by asking the generator only: run with tape in a child that will crash; plan is lost.
            plan = None
        replay = None
        if plan is not None:
            size0 = len(json.dumps(plan))
            if os.environ.get("VERIF_NO_MINIMISE") != "1":
                plan2, tries = minimise(binary, part["scenario"], seed, plan, prop, v["rule"], budget=120 if tier == "quick" else 400)
                mfrom = {"bytes": size0, "tries": tries}
                plan = plan2
            out2, crash2 = run_plan(binary, part["scenario"], seed, plan)
            reproduced = same_violation(out2, crash2, prop, v["rule"])
            lh = (out2 or {}).get("log_hash", "")
            # determinism of the replay: run once more and compare log hashes
            out3, crash3 = run_plan(binary, part["scenario"], seed, plan)
            stable = (out3 or {}).get("log_hash", "") == lh
            replay = write_replay(prop, part["scenario"], part["module"], seed, plan, v, lh, mfrom)
            if not reproduced:
                if last_try:
                    infra_msgs.append("violation %s/%s at seed %d did not reproduce from its replay file %s (nor did %d other run(s) with the same rule)" % (prop, v["rule"], seed, replay, min(len(items), 5) - 1))
                continue
            if not stable:
                infra_msgs.append("replay %s is not deterministic (log hashes differ)" % replay)
        else:
            replay = write_replay(prop, part["scenario"], part["module"], seed, {"generated_from_seed": seed, "variant": part.get("variant", "")}, v, o.get("log_hash", ""))
        done_rules.add(key)
        reported.append((replay, v, len(items)))
        lines.append("VIOLATION property=%s replay=%s" % (prop, replay))
        lines.append("  rule=%s count=%d detail=%s" % (v["rule"], len(items), v["detail"][:600]))
        exit_code = 1
    for k in run_known_replays(known, prop, built):
        known_hits.setdefault(k["id"], (k, -1, None))
    for kid, (k, seed, v) in known_hits.items():
        lines.append("KNOWN-FINDING: property=%s %s" % (prop, k["what"]))
    if infra_msgs:
        for m in infra_msgs:
            print("INFRA-ERROR: " + m, flush=True)
        if exit_code == 0:
            exit_code = 2
    if gaps and exit_code == 0:
        print("INFRA-ERROR: model gaps: %s" % sorted(set(gaps))[:5])
        exit_code = 2

    wall = time.time() - t0
    zero_probes = [p for p in chk.get("expected_probes", []) if probes.get(p, 0) == 0]
    fault_fired = {k: v for k, v in stats.items() if k.startswith("fault.")}
    ev = {
        "property_id": prop,
        "tier": tier,
        "seed": seedbase,
        "level": chk["level"],
        "coverage": {
            "evaluations": total_runs,
            "distinct_nontrivial": len(nontrivial_hashes),
            "rule": chk["rule"],
            "samples": samples or [{"note": "no sample could be produced"}],
            "exhaustive": False,
            "distinct_event_logs": len(hashes),
            "scheduler_steps": steps,
            "simulated_time_s": round(fake_ms / 1000.0, 1),
            "runs_per_hour": int(total_runs / max(wall - build_s, 0.001) * 3600),
            "parts": parts_summary,
            "event_counts": {k: v for k, v in sorted(stats.items()) if k.startswith("ev.") or k in ("ticks", "s2c.partial")},
            "faults_fired": fault_fired,
            "probes_runs_hit": dict(sorted(probes.items())),
            "probes_never_hit": zero_probes,
            "calls_judged": dict(sorted(judged.items())),
            "calls_not_judged": dict(sorted(not_judged.items())),
            "configurations_distinct": len(configs),
            "components": chk.get("components", {}),
            "gomaxprocs_mix": [1, 2, 4],
            "build_s": round(build_s, 1),
            "known_findings_hit": sorted(known_hits.keys()),
            "transient_watchdog_retries": transient_watchdogs,
            "violations_reported": [{"replay": r, "rule": v["rule"], "count": n} for r, v, n in reported],
        },
        "assumptions": chk.get("assumptions", []),
        "wall_s": round(wall, 2),
        "violations": len(reported),
    }
    os.makedirs(os.path.join(VERIF, "evidence"), exist_ok=True)
    json.dump(ev, open(os.path.join(VERIF, "evidence", prop + ".json"), "w"), indent=1)
    for l in lines:
        print(l, flush=True)
    for p in zero_probes:
        print("WARNING: probe never hit: " + p)
    print("%s %s: %d runs, %d distinct non-trivial schedules, %.0f s simulated, %d steps, %.1f s wall (build %.1f s), exit %d"
          % (prop, tier, total_runs, len(nontrivial_hashes), fake_ms / 1000.0, steps, wall, build_s, exit_code), flush=True)
    if total_runs == 0 and exit_code == 0:
        infra("no runs completed")
    if chk["level"] in ("exploration", "fault_enumeration") and len(nontrivial_hashes) < 2 and exit_code == 0:
        infra("fewer than 2 distinct non-trivial runs")
    sys.exit(exit_code)


def replay(path):
    r = json.load(open(path))
    mod = r["module"]
    binary, _ = build_module(mod)
    os.makedirs(TMP, exist_ok=True)
    prop, rule = r["property"], r["violation"]["rule"]
    if "generated_from_seed" in (r.get("plan") or {}):
        pf = os.path.join(TMP, "rp-%d.jsonl" % os.getpid())
        rc, text, to = run_child(binary, r["scenario"], r["seed"], 1, "quick", 2, pf, r["plan"].get("variant", ""), timeout=300)
        outs, begun = parse_out(pf)
        out = outs.get(r["seed"])
        crash = None if out else classify_crash(text) + (text, to)
    else:
        out, crash = run_plan(binary, r["scenario"], r["seed"], r["plan"], tape=True)
    if same_violation(out, crash, prop, rule):
        same_hash = (out or {}).get("log_hash", "") == r.get("log_hash", "")
        print("VIOLATION property=%s replay=%s" % (prop, path))
        print("  reproduced rule=%s log_hash_identical=%s" % (rule, same_hash))
        for v in (out or {}).get("violations") or []:
            print("  " + v["rule"] + ": " + v["detail"][:500])
        sys.exit(1)
    print("replay did not reproduce %s/%s (the tree under /repo may have changed)" % (prop, rule))
    if out is not None and (out.get("harness_err") or out.get("gaps")):
        print("INFRA-ERROR: " + str(out.get("harness_err") or out.get("gaps"))[:800])
        sys.exit(2)
    sys.exit(0)


def mkreplay(prop, module, scenario, seed, rule, outpath, variant=""):
    """Runs one seed, minimises the plan for (prop, rule) and stores it as a committed replay (used for known findings)."""
    binary, _ = build_module(module)
    os.makedirs(TMP, exist_ok=True)
    pf = os.path.join(TMP, "mk-%d.jsonl" % os.getpid())
    if os.path.exists(pf):
        os.remove(pf)
    run_child(binary, scenario, seed, 1, "quick", 2, pf, variant, tape=True, timeout=300)
    outs, _ = parse_out(pf)
    o = outs.get(seed)
    if not o or not any(v["prop"] == prop and v["rule"] == rule for v in o.get("violations") or []):
        print("seed does not show %s/%s" % (prop, rule))
        sys.exit(2)
    plan, tries = minimise(binary, scenario, seed, o["plan"], prop, rule, budget=300)
    out2, crash2 = run_plan(binary, scenario, seed, plan)
    v = [v for v in out2["violations"] if v["prop"] == prop and v["rule"] == rule][0]
    json.dump({"property": prop, "scenario": scenario, "module": module, "seed": seed, "plan": plan, "violation": v,
               "log_hash": out2.get("log_hash", ""), "minimised_from": {"tries": tries}}, open(outpath, "w"), indent=1)
    print("wrote", outpath, "after", tries, "minimisation runs:", v["detail"][:300])


def run_known_replays(known, prop, built):
    """Directed reproductions of known findings: each listed replay is executed on every run."""
    hits = []
    for k in known:
        if k.get("status") != "known" or k.get("property") != prop or not k.get("replay"):
            continue
        path = os.path.join(VERIF, k["replay"])
        r = json.load(open(path))
        if r["module"] not in built:
            built[r["module"]], _ = build_module(r["module"])
        out, crash = run_plan(built[r["module"]], r["scenario"], r["seed"], r["plan"])
        if same_violation(out, crash, prop, r["violation"]["rule"]):
            hits.append(k)
    return hits


def selftest_determinism(scens):
    todo = []
    for prop, chk in CHECKS.items():
        for part in chk["parts"]:
            key = (part["module"], part["scenario"], part.get("variant", ""))
            if key not in todo and (not scens or part["scenario"] in scens or (part["scenario"] + ":" + part.get("variant", "")) in scens):
                todo.append(key)
    bad = 0
    for mod, scen, variant in todo:
        binary, _ = build_module(mod)
        n = int(os.environ.get("VERIF_SELFTEST_SEEDS", "60"))
        results = []
        for procs in (1, 4, 16):
            for rep in range(3):
                b = Batch(binary, scen, "quick", variant, (procs,))
                b.run(424242, n, jobs=4)
                results.append({s: o["log_hash"] for s, o in b.outcomes.items()})
        div = [s for s in results[0] if any(r.get(s) != results[0][s] for r in results)]
        print("%-20s %d seeds x 9 processes (GOMAXPROCS 1,4,16): %d divergent %s" % (scen + (":" + variant if variant else ""), n, len(div), div[:8]))
        bad += len(div)
    sys.exit(2 if bad else 0)


def main():
    a = sys.argv[1:]
    if not a:
        print(__doc__)
        sys.exit(2)
    if a[0] == "run":
        tier = os.environ.get("VERIF_TIER", "quick")
        if "--tier" in a:
            tier = a[a.index("--tier") + 1]
        run_check(a[1], tier)
    elif a[0] == "replay":
        replay(a[1])
    elif a[0] == "selftest" and a[1] == "determinism":
        selftest_determinism(a[2:])
    elif a[0] == "mkreplay":
        # mkreplay <prop> <module> <scenario> <seed> <rule> <outpath> [variant]
        mkreplay(a[1], a[2], a[3], int(a[4]), a[5], a[6], a[7] if len(a) > 7 else "")
    elif a[0] == "build":
        for m in (a[1:] or list(MODULES)):
            out, dt = build_module(m)
            print("built %s in %.1f s" % (out, dt))
    else:
        print(__doc__)
        sys.exit(2)


if __name__ == "__main__":
    main()
